(* C03, value clause under chunking: for EVERY way of cutting the input into read buffers the
   documents of the value-building machine are the reference parser's documents of the whole
   text, up to number leaves; a number leaf is what the number builder makes of the literal,
   where the scan-ahead flag may have been cleared at any byte (it is cleared at every buffer
   boundary). Generalises ValueSim.parse_refines from one buffer to any list of buffers; the
   relation [TR] replaces the function [tr] because the same literal can be cut differently at
   two places of one document. *)
From Coq Require Import Init.Byte NArith ZArith List Bool Lia.
Require Import Ojg.Base.Bytes Ojg.Base.Jv Ojg.Base.Utf8 Ojg.Gen.OjMaps Ojg.Json.Number Ojg.Json.Machine Ojg.Json.Ref Ojg.Json.RefParse Ojg.Json.Sweep Ojg.Json.DataInv Ojg.Json.Frontends Ojg.Json.ValueSim.
Import ListNotations.
Open Scope Z_scope.

Section CTr.
  Variable K : cfg.

  Inductive NB : bytes -> nphase -> num -> bool -> Prop :=
    | NB_start b p n f f' : nstart b = Some (p, n, f) -> (f' = f \/ f' = false) -> NB [b] p n f'
    | NB_step t p n f b p' n' f' f'' :
        NB t p n f -> nnext p b = Some p' -> nupd p b n f = (n', f') -> (f'' = f' \/ f'' = false) ->
        NB (t ++ [b]) p' n' f''.

  Lemma NB_reset t p n f : NB t p n f -> NB t p n false.
  Proof.
    intro H. inversion H; subst.
    - eapply NB_start; [eassumption | right; reflexivity].
    - eapply NB_step; [eassumption | eassumption | eassumption | right; reflexivity].
  Qed.

  Inductive TR : jv -> jv -> Prop :=
    | TR_big t p n f : NB t p n f -> TR (JBig t) (num_value K n)
    | TR_arr l l' : Forall2 TR l l' -> TR (JArr l) (JArr l')
    | TR_obj m m' : Forall2 (fun a b => fst a = fst b /\ TR (snd a) (snd b)) m m' -> TR (JObj m) (JObj m')
    | TR_null : TR JNull JNull
    | TR_bool b : TR (JBool b) (JBool b)
    | TR_str s : TR (JStr s) (JStr s).

  Definition MR : list (bytes * jv) -> list (bytes * jv) -> Prop :=
    Forall2 (fun a b => fst a = fst b /\ TR (snd a) (snd b)).
  Definition IR : list jv -> list sitem -> Prop :=
    Forall2 (fun v i => exists v', i = SVal v' /\ TR v v').

  Lemma MR_set k v v' m m' : MR m m' -> TR v v' -> MR (map_set k v m) (map_set k v' m').
  Proof.
    intros H Hv. induction H as [|[k1 x1] [k2 x2] m m' [Hk Hx] H IH]; simpl.
    - constructor; [split; [reflexivity | exact Hv] | constructor].
    - simpl in Hk. subst k2. destruct (bytes_eqb k k1).
      + constructor; [split; [reflexivity | exact Hv] | exact H].
      + constructor; [split; [reflexivity | exact Hx] | exact IH].
  Qed.

  Lemma IR_vals items vals : IR items vals -> Forall2 TR items (map item_val vals).
  Proof.
    intro H. induction H as [|v i items vals (v' & -> & Hv) H IH]; simpl; constructor; assumption.
  Qed.

  Lemma Forall2_rev' {A B} (P : A -> B -> Prop) l l' : Forall2 P l l' -> Forall2 P (rev l) (rev l').
  Proof.
    intro H. induction H as [|x y l l' Hxy H IH]; simpl; [constructor|].
    apply Forall2_app; [exact IH | constructor; [exact Hxy | constructor]].
  Qed.

  Inductive SRc : list bool -> bool -> list sitem -> list Z -> list frame -> Prop :=
    | SRc_top : SRc [] false [] [] []
    | SRc_obj s m m' rest starts fs :
        MR m m' -> SRc s (parent_pend s) rest starts fs ->
        SRc (true :: s) false (SMap m' :: rest) (-1 :: starts) (FObj m None :: fs)
    | SRc_objk s m m' k rest starts fs :
        MR m m' -> SRc s (parent_pend s) rest starts fs ->
        SRc (true :: s) true (SKey k :: SMap m' :: rest) (-1 :: starts) (FObj m (Some k) :: fs)
    | SRc_arr s items vals rest starts fs :
        IR items vals -> SRc s (parent_pend s) rest starts fs ->
        SRc (false :: s) false (vals ++ SMark :: rest)
            (Z.of_nat (length rest) :: starts) (FArr items :: fs).

  Lemma SRc_nil p stk st fs : SRc [] p stk st fs -> stk = [] /\ st = [] /\ fs = [] /\ p = false.
  Proof. intro H. inversion H. auto. Qed.

  Lemma add_simc s pend stk st fs v v' p' et :
    SRc s pend stk st fs -> TR v v' -> a_emit (view_of s) pend = Some (p', et) ->
    exists stk', add stk v' = Some stk' /\
      (if et then s = [] /\ stk' = [SVal v'] /\ st = [] /\ fs = []
       else s <> [] /\ SRc s p' stk' st (fs_add fs v)).
  Proof.
    intros HF Hv HA. destruct HF as [|s m m' rest starts fs Hm HF|s m m' k rest starts fs Hm HF|s items vals rest starts fs Hi HF].
    - simpl in HA. inversion HA; subst. exists [SVal v']. split; [reflexivity|]. auto.
    - unfold a_emit in HA. rewrite view_top_true in HA. discriminate HA.
    - unfold a_emit in HA. rewrite view_top_true in HA. inversion HA; subst.
      exists (SMap (map_set k v' m') :: rest). split; [reflexivity|]. split; [discriminate|].
      simpl. constructor; [apply MR_set; assumption | exact HF].
    - unfold a_emit in HA. rewrite view_top_false in HA. inversion HA; subst.
      exists (SVal v' :: vals ++ SMark :: rest). split.
      + apply add_not_key. destruct Hi as [|x i items vals (w & -> & _) Hi]; simpl; exact I.
      + split; [discriminate|]. simpl.
        change (SVal v' :: vals ++ SMark :: rest) with ((SVal v' :: vals) ++ SMark :: rest).
        constructor; [|exact HF]. constructor; [exists v'; auto | exact Hi].
  Qed.

  Lemma add_parent_simc s rest st fs v v' :
    SRc s (parent_pend s) rest st fs -> TR v v' ->
    exists stk', add rest v' = Some stk' /\
      match s with
      | [] => stk' = [SVal v'] /\ st = [] /\ fs = []
      | _ => SRc s false stk' st (fs_add fs v)
      end.
  Proof.
    intros HF Hv. destruct (add_simc s _ rest st fs v v' _ _ HF Hv (parent_emit s)) as (stk' & Ha & Hr).
    exists stk'. split; [exact Ha|]. destruct s; [tauto | apply Hr].
  Qed.
End CTr.

Section CSim.
  Variable one : bool.
  Variable K : cfg.
  Hypothesis Hb : builds K = true.

  Notation TRK := (TR K).
  Notation SRK := (SRc K).

  Definition scratch_relc (r : rmode) (d : data) (rd : rdata) : Prop :=
    match r with
    | RStr _ | REsc _ => d_rtmp d = r_str rd
    | RHex _ _ => d_rtmp d = r_str rd /\ d_rn d = r_hex rd
    | RNum p => NB (rev (r_numt rd)) p (d_num d) (d_fast d)
    | _ => True
    end.

  Definition Relc (r : rmode) (s : list bool) (d : data) (rd : rdata) : Prop :=
    SRK s (pend_of r (view_of s)) (d_stack d) (d_starts d) (r_frames rd) /\
    Forall2 TRK (r_docs rd) (d_docs d) /\ r_hi rd = None /\ scratch_relc r d rd.

  Definition VRelc (s : list bool) (p : bool) (d : data) (rd : rdata) : Prop :=
    SRK s p (d_stack d) (d_starts d) (r_frames rd) /\ Forall2 TRK (r_docs rd) (d_docs d) /\ r_hi rd = None.

  Lemma emit_simc s pend d rd v v' e p' et :
    VRelc s pend d rd -> TRK v v' -> a_emit (view_of s) pend = Some (p', et) ->
    exists d', post_ho K et (emit_val K d v' e) = Some d' /\ VRelc s p' d' (add_value rd v).
  Proof.
    intros (HF & Hdocs & Hhi) Hv HA.
    destruct (add_simc K s pend _ _ _ v v' p' et HF Hv HA) as (stk' & Hadd & Hr).
    rewrite (emit_val_b K Hb), Hadd. unfold post_ho. simpl.
    destruct et.
    - destruct Hr as (-> & -> & Hst & Hfs).
      rewrite (handoff_b K Hb). simpl. eexists. split; [reflexivity|].
      destruct (add_value_top rd v Hfs) as [F1 F2].
      unfold VRelc. simpl. rewrite F1, F2, Hst, add_value_hi. simpl.
      pose proof (a_emit_fst _ _ _ _ HA) as ->. repeat split; [constructor | constructor; assumption | exact Hhi].
    - destruct Hr as (Hne & Hr). eexists. split; [reflexivity|].
      assert (Hfne : r_frames rd <> []).
      { intro E. rewrite E in HF. inversion HF; subst. apply Hne. reflexivity. }
      unfold VRelc. simpl. rewrite add_value_hi, (add_value_docs rd v Hfne), (add_value_frames rd v Hfne).
      simpl. auto.
  Qed.

  Lemma close_post_simc s o d rd val val' rest st fs :
    SRK s (parent_pend s) rest st fs -> TRK val val' -> Forall2 TRK (r_docs rd) (d_docs d) -> r_hi rd = None ->
    exists d', post_ho K (match s with [] => true | _ => false end)
                 (match add rest val' with
                  | Some stk => Some (upd_stacks d stk st)
                  | None => None end) = Some d' /\
               VRelc (apply_sop SPop (o :: s)) false d' (add_value (set_frames rd fs) val).
  Proof.
    intros HF Hv Hdocs Hhi. destruct (add_parent_simc K s rest st fs val val' HF Hv) as (stk' & Ha & Hr). rewrite Ha.
    destruct s as [|x s].
    - destruct Hr as (-> & -> & ->). unfold post_ho, opt_bind. rewrite (handoff_b K Hb). simpl.
      eexists. split; [reflexivity|]. unfold VRelc. simpl.
      destruct rd as [fs0 st0 hx hi nt docs]. simpl in *. repeat split; [constructor | constructor; assumption | exact Hhi].
    - unfold post_ho, opt_bind. eexists. split; [reflexivity|]. unfold VRelc. simpl.
      assert (Hfne : fs <> []). { intro E. subst fs. inversion HF. }
      rewrite add_value_hi.
      rewrite (add_value_frames (set_frames rd fs) val) by exact Hfne.
      destruct rd as [fs0 st0 hx hi nt docs]. simpl in *. auto.
  Qed.

  Lemma close_obj_simc s' d rd :
    VRelc (true :: s') false d rd ->
    exists d', post_ho K (match s' with [] => true | _ => false end)
      (match d_stack d with
       | [] => None
       | top :: rest =>
           match add rest (item_val top) with
           | Some s => Some (upd_stacks d s (tl (d_starts d)))
           | None => None
           end
       end) = Some d' /\ VRelc s' false d' (close_top rd).
  Proof.
    intros (HF & Hdocs & Hhi).
    inversion HF as [|s0 m m' rest starts fs Hm HFp| |]; subst.
    simpl tl. unfold close_top.
    match goal with H : _ = r_frames rd |- _ => rewrite <- H end.
    simpl item_val. simpl frame_val.
    apply (close_post_simc s' true d rd (JObj m) (JObj m') rest starts fs HFp (TR_obj K _ _ Hm) Hdocs Hhi).
  Qed.

  Lemma close_arr_simc s' d rd :
    VRelc (false :: s') false d rd ->
    exists d', post_ho K (match s' with [] => true | _ => false end)
      (match d_starts d with
       | [] => None
       | st :: starts' =>
           let start := st + 1 in
           let len := Z.of_nat (length (d_stack d)) in
           let size := len - start in
           if (size <? 0) || (start - 1 <? 0) then None
           else
             let elems := rev (firstn (Z.to_nat size) (d_stack d)) in
             let rest := skipn (Z.to_nat size + 1) (d_stack d) in
             match add rest (JArr (map item_val elems)) with
             | Some s => Some (upd_stacks d s starts')
             | None => None
             end
       end) = Some d' /\ VRelc s' false d' (close_top rd).
  Proof.
    intros (HF & Hdocs & Hhi).
    inversion HF as [| | |s0 items vals rest starts fs Hi HFp]; subst.
    cbv zeta.
    assert (Hlen : Z.of_nat (length (vals ++ SMark :: rest)) - (Z.of_nat (length rest) + 1) = Z.of_nat (length vals)).
    { rewrite app_length. simpl length. lia. }
    rewrite Hlen.
    assert (Hc : (Z.of_nat (length vals) <? 0) || (Z.of_nat (length rest) + 1 - 1 <? 0) = false).
    { apply orb_false_iff. split; apply Z.ltb_ge; lia. }
    rewrite Hc. rewrite Nat2Z.id.
    rewrite firstn_app_exact.
    replace (length vals + 1)%nat with (length (vals ++ [SMark])) by (rewrite app_length; reflexivity).
    replace (vals ++ SMark :: rest) with ((vals ++ [SMark]) ++ rest) by (rewrite <- app_assoc; reflexivity).
    rewrite skipn_app_exact.
    unfold close_top.
    match goal with H : _ = r_frames rd |- _ => rewrite <- H end.
    assert (Hv : TRK (frame_val (FArr items)) (JArr (map item_val (rev vals)))).
    { simpl. constructor. rewrite map_rev. apply Forall2_rev'. apply IR_vals. exact Hi. }
    apply (close_post_simc s' false d rd _ _ rest starts fs HFp Hv Hdocs Hhi).
  Qed.
  Lemma VRel_ofc r s d rd : Relc r s d rd -> VRelc s (pend_of r (view_of s)) d rd.
  Proof. intros (A & B & C & _). repeat split; assumption. Qed.


  Lemma Rel_noscratchc r s p d rd : noscratch r = true -> pend_of r (view_of s) = p -> VRelc s p d rd -> Relc r s d rd.
  Proof.
    intros Hn <- (A & B & C). repeat split; try assumption. destruct r; try discriminate Hn; exact I.
  Qed.

  Lemma open_simc s pend stk st fs :
    SRK s pend stk st fs -> a_open (view_of s) pend = true -> SRK s (parent_pend s) stk st fs.
  Proof.
    intros HF HA. destruct HF as [|s0 m0 m0' rest starts fs Hm HF|s0 m0 m0' k rest starts fs Hm HF|s0 items vals rest starts fs Hi HF].
    - constructor.
    - unfold a_open in HA. rewrite view_top_true in HA. discriminate HA.
    - simpl. constructor; assumption.
    - simpl. constructor; assumption.
  Qed.

  Definition StepHypsc c s b r r' op ho p' d rd : Prop :=
    rstep one r (view_of s) b = Some (r', op) /\
    dcompat K c b r r' op = true /\
    adata_build K c (view_of s) b op (pend_of r (view_of s)) = Some (p', ho) /\
    pend_of r' (view_of (apply_sop op s)) = p' /\
    Relc r s d rd.

  Ltac kinds := unfold builds in Hb; destruct (k_kind K); try discriminate Hb.

  Lemma step_op_noscratchc c s b r r' op ho p' d rd :
    StepHypsc c s b r r' op ho p' d rd -> structural r = true -> noscratch r' = true ->
    match op with
    | SPush true => act_eqb (k_tab K (c_mode c) b) A_openObject
    | SPush false => act_eqb (k_tab K (c_mode c) b) A_openArray
    | SPop => act_in (k_tab K (c_mode c) b) [A_closeArray; A_closeObject] && negb (fin_is K (c_mode c) 110)
    | SNone => act_in (k_tab K (c_mode c) b) [A_skipChar; A_skipNewline; A_colonColon; A_afterComma]
    end = true ->
    exists d', data_step K c b ho d = Some d' /\ Relc r' (apply_sop op s) d' (apply_op op rd).
  Proof.
    intros (HRS & HD & HB & HP & HR) Hs Hns H.
    unfold data_step. rewrite (not_fast K _ _ _ _ _ d HD) by (destruct r; try discriminate Hs; reflexivity).
    pose proof (b_has_num K Hb) as Hn.
    pose proof (VRel_ofc _ _ _ _ HR) as HV.
    unfold adata_build in HB.
    set (a := k_tab K (c_mode c) b) in *.
    fold (post_ho K ho).
    destruct op as [|[|]|].
    - (* SNone *)
      apply act_in4 in H. destruct H as [H|[H|[H|H]]]; rewrite H in *;
        simpl in HB; injection HB as E1 E2; rewrite <- E2; rewrite <- E1 in HP;
        (eexists; split; [reflexivity|]); simpl apply_sop in *; simpl apply_op;
        (apply (Rel_noscratchc _ _ _ _ _ Hns HP)); exact HV.
    - (* open object *)
      apply act_eqb_eq in H. rewrite H in *. simpl in HB.
      destruct (a_open (view_of s) (pend_of r (view_of s))) eqn:Ho; [|discriminate HB].
      injection HB as E1 E2; rewrite <- E1 in HP; rewrite <- E2.
      destruct HV as (HSR & Hdocs & Hhi).
      pose proof (open_simc _ _ _ _ _ HSR Ho) as HFp.
      kinds; (eexists; split; [reflexivity|]); simpl apply_op;
        (apply (Rel_noscratchc _ _ _ _ _ Hns HP)); (repeat split; [|assumption|assumption]);
        simpl; apply (SRc_obj K s [] [] _ _ _ (Forall2_nil _) HFp).
    - (* open array *)
      apply act_eqb_eq in H. rewrite H in *. simpl in HB.
      destruct (a_open (view_of s) (pend_of r (view_of s))) eqn:Ho; [|discriminate HB].
      injection HB as E1 E2; rewrite <- E1 in HP; rewrite <- E2.
      destruct HV as (HSR & Hdocs & Hhi).
      pose proof (open_simc _ _ _ _ _ HSR Ho) as HFp.
      kinds; (eexists; split; [reflexivity|]); simpl apply_op;
        (apply (Rel_noscratchc _ _ _ _ _ Hns HP)); (repeat split; [|assumption|assumption]);
        simpl; apply (SRc_arr K s [] [] _ _ _ (Forall2_nil _) HFp).
    - (* close *)
      apply andb_true_iff in H as [H Hfin]. apply negb_true_iff in Hfin.
      apply act_in2 in H. destruct H as [H|H]; rewrite H in *; simpl in HB;
        destruct (a_close_inv K _ _ _ _ _ _ HB) as (s' & -> & -> & -> & Hpre);
        rewrite Hfin, andb_false_r in Hpre; rewrite Hfin, andb_false_r; simpl opt_bind;
        rewrite Hpre in HV; simpl apply_op.
      + destruct (close_arr_simc s' (upd_fast d false) rd HV) as (d' & Hd' & HV').
        kinds; (exists d'; split; [exact Hd'|]); apply (Rel_noscratchc _ _ _ _ _ Hns HP); exact HV'.
      + destruct (close_obj_simc s' (upd_fast d false) rd HV) as (d' & Hd' & HV').
        kinds; (exists d'; split; [exact Hd'|]); apply (Rel_noscratchc _ _ _ _ _ Hns HP); exact HV'.
  Qed.

  Lemma step_structuralc c s b r r' op ho p' d rd :
    StepHypsc c s b r r' op ho p' d rd -> structural r = true ->
    exists d', data_step K c b ho d = Some d' /\ Relc r' (apply_sop op s) d' (rdata_step false r r' op b rd).
  Proof.
    intros HS Hs. pose proof HS as (HRS & HD & HB & HP & HR).
    rewrite (rdata_step_struct _ _ _ _ _ Hs).
    pose proof (HD_struct K _ _ _ _ _ HD Hs) as H. cbv zeta in H.
    pose proof (dfacts_of K _ _ _ _ _ HD) as HF. unfold dfacts in HF. apply andb_true_iff in HF as [HF _]. rewrite Hs in HF. simpl negb in HF. simpl orb in HF.
    apply andb_true_iff in HF as [HF Hex]. apply andb_true_iff in HF as [_ Hst].
    assert (Hst' : match r' with RNum q' => match nstart b with Some (p'', _, _) => nphase_eqb p'' q' | None => false end | _ => true end = true).
    { destruct r; try discriminate Hs; exact Hst. }
    clear Hst.
    destruct r' as [| | | | | | | |k'|k'|k' n'|l' n'|q'];
      try (apply (step_op_noscratchc _ _ _ _ _ _ _ _ _ _ HS Hs eq_refl H)); try discriminate Hex.
    - (* string start *)
      unfold data_step. rewrite (not_fast K _ _ _ _ _ d HD) by (destruct r; try discriminate Hs; reflexivity).
      pose proof HR as (HSR & Hdocs & Hhi & _). unfold adata_build in HB.
      apply act_in2 in H. destruct H as [H|H]; rewrite H in *;
        apply same_inv in HB as (-> & E1 & ->); rewrite E1 in HP;
        (eexists; split; [reflexivity|]); simpl in HP |- *; unfold Relc; rewrite HP; simpl; repeat split; assumption.
    - (* literal start *)
      unfold data_step. rewrite (not_fast K _ _ _ _ _ d HD) by (destruct r; try discriminate Hs; reflexivity).
      pose proof (VRel_ofc _ _ _ _ HR) as HV. unfold adata_build in HB.
      destruct l'; apply act_eqb_eq in H; rewrite H in *;
        apply same_inv in HB as (-> & E1 & ->); rewrite E1 in HP;
        (eexists; split; [reflexivity|]); simpl apply_sop in *; simpl apply_op;
        (refine (Rel_noscratchc _ _ _ _ _ _ HP _); [reflexivity | exact HV]).
    - (* number start *)
      unfold data_step. rewrite (not_fast K _ _ _ _ _ d HD) by (destruct r; try discriminate Hs; reflexivity).
      pose proof HR as (HSR & Hdocs & Hhi & _). unfold adata_build in HB.
      rewrite (b_has_num K Hb).
      destruct (nstart b) as [[[p0 n0] f0]|] eqn:Hns; [|discriminate Hst'].
      apply nphase_eqb_eq in Hst'. subst p0. pose proof (nstart_phase _ _ _ _ Hns) as Hph.
      destruct q'; try discriminate H; apply act_eqb_eq in H; rewrite H in *;
        apply same_inv in HB as (-> & E1 & ->); rewrite E1 in HP; destruct Hph as [-> ->];
        (eexists; split; [reflexivity|]); simpl in HP |- *; unfold Relc; rewrite HP; simpl; repeat split; try assumption;
        (eapply NB_start; [exact Hns | left; reflexivity]).
  Qed.

  Lemma step_strc c s b k r' op ho p' d rd :
    StepHypsc c s b (RStr k) r' op ho p' d rd ->
    exists d', data_step K c b ho d = Some d' /\ Relc r' (apply_sop op s) d' (rdata_step false (RStr k) r' op b rd).
  Proof.
    intros (HRS & HD & HB & HP & HR).
    unfold data_step. rewrite (not_fast K _ _ _ _ _ d HD) by reflexivity.
    pose proof HR as (HSR & Hdocs & Hhi & Hscr). simpl in Hscr.
    unfold adata_build in HB. rewrite (b_has_num K Hb).
    unfold dcompat in HD. apply andb_true_iff in HD as [_ HD].
    fold (post_ho K ho).
    simpl in HRS. unfold rdata_step. simpl is_num. simpl andb. cbv iota.
    destruct (beqb b x22) eqn:Eq.
    - (* closing quote *)
      apply andb_true_iff in HD as [Ha Hk]. apply act_eqb_eq in Ha. apply Bool.eqb_prop in Hk.
      rewrite Ha in *. rewrite Hk in *. rewrite (flush_hi_none _ Hhi).
      injection HRS as <- <-.
      destruct (sop_eqb SNone SNone) eqn:E0; [|discriminate E0]. clear E0.
      destruct k.
      + (* key *)
        destruct (top_obj (view_of s) && negb (pend_of (RStr true) (view_of s))) eqn:Hc; [|discriminate HB].
        injection HB as E1 E2. rewrite <- E2. rewrite <- E1 in HP.
        apply andb_true_iff in Hc as [Ht Hp]. apply negb_true_iff in Hp. rewrite Hp in HSR.
        inversion HSR as [|s0 m0 m0' rest starts fs Hm HFp Es Est Esk Efs| |]; subst.
        * discriminate Ht.
        * kinds; (eexists; split; [reflexivity|]); simpl apply_sop in *;
            (refine (Rel_noscratchc _ _ _ _ _ _ HP _); [reflexivity|]);
            unfold VRelc; simpl;
            rewrite <- Esk, <- Efs;
            rewrite Hscr; (repeat split; [|assumption|assumption]); (apply SRc_objk; [exact Hm | exact HFp]).
        * unfold top_obj in Ht. rewrite view_top_false in Ht. discriminate Ht.
      + (* string value *)
        cbn [d_rtmp upd_fast]. rewrite Hscr.
        pose proof (emit_simc s _ (upd_fast d false) rd (JStr (rev (r_str rd))) (JStr (rev (r_str rd))) ENull p' ho (VRel_ofc _ _ _ _ HR) (TR_str K _) HB) as (d' & Hd' & HV').
        kinds; (exists d'; split; [exact Hd'|]); simpl apply_sop in *;
          (refine (Rel_noscratchc _ _ _ _ _ _ HP HV'); apply after_value_noscratch).
    - destruct (beqb b x5c) eqn:Es.
      + (* backslash *)
        apply act_eqb_eq in HD. rewrite HD in *. injection HRS as <- <-.
        apply same_inv in HB as (_ & E1 & ->). rewrite E1 in HP.
        eexists. split; [reflexivity|]. simpl in HP |- *. unfold Relc. rewrite HP. simpl. repeat split; assumption.
      + (* ordinary byte *)
        apply act_eqb_eq in HD. rewrite HD in *.
        destruct (b2z b <? 32); [discriminate HRS|]. injection HRS as <- <-.
        apply same_inv in HB as (_ & E1 & ->). rewrite E1 in HP.
        eexists. split; [reflexivity|]. simpl in HP |- *. unfold Relc.
        unfold app_str. rewrite (flush_hi_none _ Hhi). simpl. rewrite Hscr. repeat split; assumption.
  Qed.

  Lemma step_escc c s b k r' op ho p' d rd :
    StepHypsc c s b (REsc k) r' op ho p' d rd ->
    exists d', data_step K c b ho d = Some d' /\ Relc r' (apply_sop op s) d' (rdata_step false (REsc k) r' op b rd).
  Proof.
    intros (HRS & HD & HB & HP & HR).
    unfold data_step. rewrite (not_fast K _ _ _ _ _ d HD) by reflexivity.
    pose proof HR as (HSR & Hdocs & Hhi & Hscr). simpl in Hscr.
    unfold adata_build in HB. rewrite (b_has_num K Hb).
    unfold dcompat in HD. apply andb_true_iff in HD as [_ HD].
    fold (post_ho K ho).
    simpl in HRS. unfold rdata_step. simpl is_num. simpl andb. cbv iota.
    destruct (beqb b x75) eqn:Eu.
    - apply act_eqb_eq in HD. rewrite HD in *.
      apply beqb_eq in Eu. subst b. simpl in HRS. injection HRS as <- <-.
      apply same_inv in HB as (_ & E1 & ->). rewrite E1 in HP.
      eexists. split; [reflexivity|]. simpl in HP |- *. unfold Relc. rewrite HP. simpl. repeat split; assumption.
    - apply andb_true_iff in HD as [Ha He]. apply act_eqb_eq in Ha. rewrite Ha in *.
      destruct (k_data K (c_mode c) b) as [e|] eqn:Hd; [|discriminate He]. apply beqb_eq in He. subst e.
      destruct (is_esc b); [|discriminate HRS]. injection HRS as <- <-.
      apply same_inv in HB as (_ & E1 & ->). rewrite E1 in HP.
      eexists. split; [reflexivity|]. simpl in HP |- *. unfold Relc. rewrite HP.
      unfold app_str. rewrite (flush_hi_none _ Hhi). simpl. rewrite Hscr. repeat split; assumption.
  Qed.

  Lemma step_hexc c s b k n r' op ho p' d rd :
    StepHypsc c s b (RHex k n) r' op ho p' d rd ->
    exists d', data_step K c b ho d = Some d' /\ Relc r' (apply_sop op s) d' (rdata_step false (RHex k n) r' op b rd).
  Proof.
    intros (HRS & HD & HB & HP & HR).
    unfold data_step. rewrite (not_fast K _ _ _ _ _ d HD) by reflexivity.
    pose proof HR as (HSR & Hdocs & Hhi & Hscr). simpl in Hscr. destruct Hscr as [Htmp Hrn].
    unfold adata_build in HB. rewrite (b_has_num K Hb).
    pose proof (dfacts_of K _ _ _ _ _ HD) as HF. unfold dfacts in HF. apply andb_true_iff in HF as [HF _].
    apply andb_true_iff in HF as [HF _]. apply andb_true_iff in HF as [HF _]. apply andb_true_iff in HF as [_ Hri].
    apply Z.eqb_eq in Hri.
    unfold dcompat in HD. apply andb_true_iff in HD as [_ HD].
    fold (post_ho K ho).
    simpl in HRS. unfold rdata_step. simpl is_num. simpl andb. cbv iota.
    apply act_eqb_eq in HD. rewrite HD in *.
    destruct (is_hex b); [|discriminate HRS]. injection HRS as <- <-.
    apply same_inv in HB as (_ & E1 & ->). rewrite E1 in HP.
    rewrite Hri. cbn [d_rn upd_fast d_rtmp upd_rn].
    replace (n + 1 =? 4) with (n =? 3) by (destruct (Z.eqb_spec n 3), (Z.eqb_spec (n + 1) 4); try reflexivity; lia).
    destruct (n =? 3) eqn:E3.
    - eexists. split; [reflexivity|]. simpl in HP |- *. unfold Relc. rewrite HP. simpl.
      rewrite Htmp, Hrn. repeat split; assumption.
    - eexists. split; [reflexivity|]. simpl in HP |- *. unfold Relc. rewrite HP. simpl.
      rewrite Hrn. repeat split; assumption.
  Qed.

  Lemma step_litc c s b l n r' op ho p' d rd :
    StepHypsc c s b (RLit l n) r' op ho p' d rd ->
    exists d', data_step K c b ho d = Some d' /\ Relc r' (apply_sop op s) d' (rdata_step false (RLit l n) r' op b rd).
  Proof.
    intros (HRS & HD & HB & HP & HR).
    unfold data_step. rewrite (not_fast K _ _ _ _ _ d HD) by reflexivity.
    pose proof (VRel_ofc _ _ _ _ HR) as HV.
    unfold adata_build in HB.
    pose proof (dfacts_of K _ _ _ _ _ HD) as HF. unfold dfacts in HF. apply andb_true_iff in HF as [HF _].
    apply andb_true_iff in HF as [HF _]. apply andb_true_iff in HF as [HF _]. apply andb_true_iff in HF as [_ Hri].
    apply andb_true_iff in Hri as [Hri Hlen]. apply Z.eqb_eq in Hri. apply Bool.eqb_prop in Hlen.
    unfold dcompat in HD. apply andb_true_iff in HD as [_ HD].
    apply andb_true_iff in HD as [Ha Hl]. apply act_eqb_eq in Ha. rewrite Ha in *.
    fold (post_ho K ho).
    simpl in HRS. unfold rdata_step. simpl is_num. simpl andb. cbv iota.
    destruct (word_at (lit_word l) n) as [ch|]; [|discriminate HRS].
    destruct (beqb ch b); [|discriminate HRS]. injection HRS as <- <-.
    destruct (sop_eqb SNone SNone) eqn:E0; [|discriminate E0]. clear E0.
    unfold lit_probe in Hl.
    assert (Hcase :
      exists v e, 
        (if Z.of_nat (length (lit_word l)) - 1 <=? c_ri c + 1 then a_emit (view_of s) (pend_of (RLit l n) (view_of s))
         else Some (pend_of (RLit l n) (view_of s), false)) = Some (p', ho) /\
        v = lit_val l /\ TRK v v /\
        (if is_act (k_tab K (c_mode c) x72) A_tokenOk
         then if Z.of_nat (length w_true) - 1 <=? c_ri c + 1 then emit_val K (upd_fast d false) (JBool true) (EBool true) else Some (upd_fast d false)
         else if is_act (k_tab K (c_mode c) x61) A_tokenOk
         then if Z.of_nat (length w_false) - 1 <=? c_ri c + 1 then emit_val K (upd_fast d false) (JBool false) (EBool false) else Some (upd_fast d false)
         else if is_act (k_tab K (c_mode c) x75) A_tokenOk && is_act (k_tab K (c_mode c) x6c) A_tokenOk
         then if Z.of_nat (length w_null) - 1 <=? c_ri c + 1 then emit_val K (upd_fast d false) JNull ENull else Some (upd_fast d false)
         else Some (upd_fast d false)) =
        (if Z.of_nat (length (lit_word l)) - 1 <=? c_ri c + 1 then emit_val K (upd_fast d false) v e else Some (upd_fast d false))).
    { destruct (is_act (k_tab K (c_mode c) x72) A_tokenOk).
      - apply lit_eqb_eq in Hl. subst l. exists (JBool true), (EBool true). (split; [exact HB|]; split; [reflexivity|]; split; [constructor | reflexivity]).
      - destruct (is_act (k_tab K (c_mode c) x61) A_tokenOk).
        + apply lit_eqb_eq in Hl. subst l. exists (JBool false), (EBool false). (split; [exact HB|]; split; [reflexivity|]; split; [constructor | reflexivity]).
        + destruct (is_act (k_tab K (c_mode c) x75) A_tokenOk && is_act (k_tab K (c_mode c) x6c) A_tokenOk); [|discriminate Hl].
          apply lit_eqb_eq in Hl. subst l. exists JNull, ENull. (split; [exact HB|]; split; [reflexivity|]; split; [constructor | reflexivity]). }
    destruct Hcase as (v & e & HB' & Hv & Htv & ->). clear HB Hl.
    rewrite <- Hlen. rewrite <- Hlen in HP. rewrite <- Hv.
    destruct (Z.of_nat (length (lit_word l)) - 1 <=? c_ri c + 1).
    - pose proof (emit_simc s _ (upd_fast d false) rd v v e p' ho HV Htv HB') as (d' & Hd' & HV').
      exists d'. split; [exact Hd'|]. simpl apply_sop in *.
      refine (Rel_noscratchc _ _ _ _ _ _ HP HV'). apply after_value_noscratch.
    - injection HB' as E1 E2. rewrite <- E2. rewrite <- E1 in HP.
      eexists. split; [reflexivity|]. simpl apply_sop in *.
      refine (Rel_noscratchc _ _ _ _ _ _ HP HV). reflexivity.
  Qed.

  Lemma num_cont_relc p q b (rd : rdata) n f n' f' :
    NB (rev (r_numt rd)) p n f -> nnext p b = Some q -> nupd p b n f = (n', f') ->
    NB (rev (b :: r_numt rd)) q n' f'.
  Proof.
    intros H Hn Hu. simpl rev. eapply NB_step; [exact H | exact Hn | exact Hu | left; reflexivity].
  Qed.

  Lemma step_num_contc c s b p q op ho p' d rd :
    StepHypsc c s b (RNum p) (RNum q) op ho p' d rd ->
    exists d', data_step K c b ho d = Some d' /\ Relc (RNum q) (apply_sop op s) d' (rdata_step false (RNum p) (RNum q) op b rd).
  Proof.
    intros (HRS & HD & HB & HP & HR).
    pose proof HR as (HSR & Hdocs & Hhi & Hscr). simpl in Hscr.
    pose proof (dfacts_of K _ _ _ _ _ HD) as HF. unfold dfacts in HF. apply andb_true_iff in HF as [HF _].
    apply andb_true_iff in HF as [HF _]. apply andb_true_iff in HF as [HF Hnn]. apply andb_true_iff in HF as [Hdig _].
    apply Bool.eqb_prop in Hdig.
    destruct (nnext p b) as [q0|] eqn:Hnx; [|discriminate Hnn]. apply nphase_eqb_eq in Hnn. subst q0.
    pose proof (fun n' f' => num_cont_relc p q b rd _ _ n' f' Hscr Hnx) as Hrel.
    pose proof (b_has_num K Hb) as Hn.
    assert (Hgoal : forall d', 
      data_step K c b ho d = Some d' -> op = SNone -> p' = pend_of (RNum p) (view_of s) ->
      nupd p b (d_num d) (d_fast d) = (d_num d', d_fast d') ->
      d_stack d' = d_stack d -> d_starts d' = d_starts d -> d_docs d' = d_docs d ->
      exists d', data_step K c b ho d = Some d' /\ Relc (RNum q) (apply_sop op s) d' (rdata_step false (RNum p) (RNum q) op b rd)).
    { intros d' Hd' -> E1 Hu Hs1 Hs2 Hs3. exists d'. split; [exact Hd'|].
      rewrite E1 in HP. simpl in HP |- *. unfold Relc. rewrite HP, Hs1, Hs2, Hs3. simpl.
      repeat split; try assumption. apply Hrel. exact Hu. }
    unfold dcompat in HD. apply andb_true_iff in HD as [_ HD].
    unfold adata_build in HB.
    destruct p; simpl exp_act in HD; unfold nupd in Hgoal; simpl exp_act in Hgoal; simpl rmode_eqb in Hdig.
    all: repeat match type of HD with context [if ?x then _ else _] => destruct x eqn:? end.
    all: apply act_eqb_eq in HD; rewrite HD in HB; apply same_inv in HB as (Eop & E1 & Eho); subst ho op.
    all: destruct (is_big (d_num d)) eqn:Ebig; destruct (d_fast d) eqn:Ef; destruct (fast_digit (d_num d) b) as [nf ff] eqn:Efd.
    all: eapply Hgoal; [ unfold data_step; cbv zeta; rewrite Hdig, HD, Hn, ?Ef; cbn [andb is_act action_code N.eqb Pos.eqb d_num upd_fast]; rewrite ?Ebig, ?Efd; cbn [andb opt_bind]; reflexivity | reflexivity | exact E1 | reflexivity | reflexivity | reflexivity | reflexivity ].
  Qed.

  Lemma VRel_numtc s p d rd t : VRelc s p d rd -> VRelc s p d (set_numt rd t).
  Proof. intros (A & B & C). repeat split; assumption. Qed.

  Lemma VRel_fastc s p d rd f : VRelc s p d rd -> VRelc s p (upd_fast d f) rd.
  Proof. intros (A & B & C). repeat split; assumption. Qed.

  Lemma post_ho_nlc ho x d2 s p rd' :
    post_ho K ho x = Some d2 -> VRelc s p d2 rd' ->
    exists d', post_ho K ho (opt_bind x (fun d => Some (upd_nl d))) = Some d' /\ VRelc s p d' rd'.
  Proof.
    unfold post_ho. destruct x as [d3|]; [|discriminate]. simpl. destruct ho.
    - rewrite !(handoff_b K Hb). simpl. destruct (rev (d_stack d3)); [discriminate|].
      intros H HV. inversion H; subst. eexists. split; [reflexivity|]. exact HV.
    - intros H HV. inversion H; subst. eexists. split; [reflexivity|]. exact HV.
  Qed.

  Lemma step_num_endc c s b p r' op ho p' d rd :
    StepHypsc c s b (RNum p) r' op ho p' d rd -> is_num r' = false ->
    exists d', data_step K c b ho d = Some d' /\ Relc r' (apply_sop op s) d' (rdata_step false (RNum p) r' op b rd).
  Proof.
    intros (HRS & HD & HB & HP & HR) Hnn.
    pose proof HR as (HSR & Hdocs & Hhi & Hscr). simpl in Hscr.
    pose proof (dfacts_of K _ _ _ _ _ HD) as HF. unfold dfacts in HF. apply andb_true_iff in HF as [_ Hns].
    rewrite Hnn in Hns. simpl in Hns.
    pose proof (b_has_num K Hb) as Hn.
    assert (Htr : TRK (JBig (rev (r_numt rd))) (num_value K (d_num d))).
    { eapply TR_big. exact Hscr. }
    pose proof (VRel_fastc _ _ _ _ false (VRel_numtc _ _ _ _ [] (VRel_ofc _ _ _ _ HR))) as HV.
    unfold dcompat in HD. apply andb_true_iff in HD as [_ HD].
    unfold adata_build in HB.
    assert (Href : rdata_step false (RNum p) r' op b rd =
                   apply_op op (add_value (set_numt rd []) (JBig (rev (r_numt rd))))).
    { unfold rdata_step. simpl is_num. rewrite Hnn. reflexivity. }
    rewrite Href. clear Href.
    unfold data_step. cbv zeta.
    destruct r' as [| | | | | | | |k'|k'|k' n'|l' n'|q']; try discriminate Hnn; try discriminate Hns.
    all: destruct op as [|o|]; try discriminate HD.
    all: try (apply act_in3 in HD; destruct HD as [HD|[HD|HD]]; rewrite HD in *;
              cbn [is_act action_code N.eqb Pos.eqb]; rewrite andb_false_r; rewrite Hn;
              simpl in HB; fold (post_ho K ho); unfold emit_num; cbn [d_num upd_fast];
              destruct (emit_simc s _ (upd_fast d false) (set_numt rd []) (JBig (rev (r_numt rd))) _ (num_event (d_num d)) p' ho HV Htr HB) as (d2 & Hd2 & HV2);
              [ exists d2; split; [exact Hd2|]; simpl apply_sop in *; simpl apply_op;
                (refine (Rel_noscratchc _ _ _ _ _ _ HP HV2); reflexivity)
              | destruct (post_ho_nlc _ _ _ _ _ _ Hd2 HV2) as (d3 & Hd3 & HV3);
                exists d3; split; [exact Hd3|]; simpl apply_sop in *; simpl apply_op;
                (refine (Rel_noscratchc _ _ _ _ _ _ HP HV3); reflexivity)
              | exists d2; split; [exact Hd2|]; simpl apply_sop in *; simpl apply_op;
                (refine (Rel_noscratchc _ _ _ _ _ _ HP HV2); reflexivity) ]).
    all: apply andb_true_iff in HD as [HD Hfin]; apply act_in2 in HD; destruct HD as [HD|HD]; rewrite HD in *;
      cbn [is_act action_code N.eqb Pos.eqb]; rewrite andb_false_r; rewrite Hn, Hfin; simpl in HB;
      destruct (a_close_inv K _ _ _ _ _ _ HB) as (s' & Es & Ep & Eh & Hpre); rewrite Hn, Hfin in Hpre; simpl in Hpre;
      subst s; rewrite Ep in HP; rewrite Eh;
      fold (post_ho K (match s' with [] => true | _ => false end)); unfold emit_num; cbn [d_num upd_fast andb];
      destruct (emit_simc _ _ (upd_fast d false) (set_numt rd []) (JBig (rev (r_numt rd))) _ (num_event (d_num d)) false false HV Htr Hpre) as (d2 & Hd2 & HV2);
      unfold post_ho in Hd2;
      destruct (emit_val K (upd_fast d false) (num_value K (d_num d)) (num_event (d_num d))) as [d3|]; try discriminate Hd2;
      simpl in Hd2; injection Hd2 as ->; simpl opt_bind; simpl apply_sop in *; simpl apply_op.
    all: try (destruct (close_arr_simc s' d2 _ HV2) as (d4 & Hd4 & HV4);
              kinds; (exists d4; split; [exact Hd4|]); (refine (Rel_noscratchc _ _ _ _ _ _ HP HV4); reflexivity)).
    all: try (destruct (close_obj_simc s' d2 _ HV2) as (d4 & Hd4 & HV4);
              kinds; (exists d4; split; [exact Hd4|]); (refine (Rel_noscratchc _ _ _ _ _ _ HP HV4); reflexivity)).
  Qed.

  Lemma step_datac c s b r r' op ho p' d rd :
    StepHypsc c s b r r' op ho p' d rd ->
    exists d', data_step K c b ho d = Some d' /\ Relc r' (apply_sop op s) d' (rdata_step false r r' op b rd).
  Proof.
    intro HS. destruct r as [| | | | | | | |k|k|k n|l n|p];
      try (apply (step_structuralc _ _ _ _ _ _ _ _ _ _ HS eq_refl)).
    - eapply step_strc; exact HS.
    - eapply step_escc; exact HS.
    - eapply step_hexc; exact HS.
    - eapply step_litc; exact HS.
    - destruct r' as [| | | | | | | |k'|k'|k' n'|l' n'|q];
        try (apply (step_num_endc _ _ _ _ _ _ _ _ _ _ HS eq_refl)).
      eapply step_num_contc; exact HS.
  Qed.

  (* ----------------------------------------------------------- the whole machine *)

  Hypothesis Hsweep : sweep_ok one K = true.
  Hypothesis Hdsweep : dsweep_ok one K = true.
  Hypothesis Hsim : simsweep_ok K one = true.

  Lemma Rel_posc r s d rd z : Relc r s d rd -> Relc r s (upd_pos d z) rd.
  Proof. intros (A & B & C & D). split; [exact A|]. split; [exact B|]. split; [exact C|]. destruct r; exact D. Qed.

  (* a buffer boundary: the scan-ahead flag is cleared *)
  Lemma Rel_resetc r s d rd : Relc r s d rd -> Relc r s (upd_fast d false) rd.
  Proof.
    intros (A & B & C & D). split; [exact A|]. split; [exact B|]. split; [exact C|].
    destruct r; try exact D. simpl in *. eapply NB_reset. exact D.
  Qed.

  Lemma sim_stepc c s d rd r b :
    alpha one c (view_of s) = Some r -> Relc r s d rd ->
    match step K c s d b, rstep one r (view_of s) b with
    | inr (St c' s' d'), Some (r', op) =>
        s' = apply_sop op s /\ alpha one c' (view_of s') = Some r' /\ Relc r' s' d' (rdata_step false r r' op b rd)
    | inl (OErr _ _), None => True
    | _, _ => False
    end.
  Proof.
    intros A HR. unfold step.
    destruct (sweep_cell one K Hsweep c (view_of s) b) as [Hc _]. unfold cell_ok in Hc. rewrite A in Hc.
    pose proof (dsweep_cell one K Hdsweep c (view_of s) b) as Hd. unfold dcell_ok in Hd. rewrite A in Hd.
    destruct (simsweep_cell one K Hsim c (view_of s) b) as [Hs _]; [rewrite A; discriminate|].
    unfold simcell_ok in Hs. rewrite A in Hs.
    destruct (ctl_step K c (view_of s) b) as [| |c' op ho] eqn:CS.
    - destruct (rstep one r (view_of s) b) as [[? ?]|]; [discriminate Hc | exact I].
    - destruct (rstep one r (view_of s) b) as [[? ?]|]; discriminate Hc.
    - destruct (rstep one r (view_of s) b) as [[r' op']|] eqn:RS; [|discriminate Hc].
      apply andb_true_iff in Hc as [Hc Hall]. apply andb_true_iff in Hc as [Hop Hpop].
      apply sop_eqb_eq in Hop. subst op'.
      rewrite forallb_forall in Hall.
      assert (Hin : In (view_of (apply_sop op s)) (views_after op (view_of s))).
      { apply view_after_in. destruct op; auto. destruct (view_of s); auto; discriminate. }
      specialize (Hall _ Hin).
      destruct (alpha one c' (view_of (apply_sop op s))) as [r''|] eqn:A'; [|discriminate Hall].
      apply rmode_eqb_eq in Hall. subst r''.
      rewrite Hb in Hd.
      destruct (adata_build K c (view_of s) b op (pend_of r (view_of s))) as [[p' et]|] eqn:AD; [|discriminate Hd].
      apply andb_true_iff in Hd as [Hho Hp]. apply Bool.eqb_prop in Hho. subst et.
      rewrite forallb_forall in Hp. specialize (Hp _ Hin). rewrite A' in Hp. apply Bool.eqb_prop in Hp.
      assert (HS : StepHypsc c s b r r' op ho p' d rd) by (split; [exact RS|]; split; [exact Hs|]; split; [exact AD|]; split; [exact Hp | exact HR]).
      destruct (step_datac _ _ _ _ _ _ _ _ _ _ HS) as (d' & -> & HR').
      split; [reflexivity|]. split; [exact A'|]. apply Rel_posc. exact HR'.
  Qed.

  Lemma sim_runc w : forall c s d rd r,
    alpha one c (view_of s) = Some r -> Relc r s d rd ->
    match run K c s d w, rprun one false r s rd w with
    | inr (St c' s' d'), Some (r', s'', rd') => s' = s'' /\ alpha one c' (view_of s') = Some r' /\ Relc r' s' d' rd'
    | inl (OErr _ _), None => True
    | _, _ => False
    end.
  Proof.
    induction w as [|b w IH]; intros c s d rd r A HR; simpl.
    - auto.
    - pose proof (sim_stepc c s d rd r b A HR) as H.
      destruct (step K c s d b) as [o|[c' s' d']]; destruct (rstep one r (view_of s) b) as [[r' op]|].
      + destruct o; contradiction.
      + exact H.
      + destruct H as (-> & A' & HR'). apply IH; assumption.
      + contradiction.
  Qed.

  Lemma rprun_app a : forall b m s d,
    rprun one false m s d (a ++ b) =
    match rprun one false m s d a with Some (m', s', d') => rprun one false m' s' d' b | None => None end.
  Proof.
    induction a as [|x a IH]; intros b m s d; simpl; [reflexivity|].
    destruct (rstep one m (view_of s) x) as [[m' op]|]; [apply IH | reflexivity].
  Qed.

  Lemma sim_chunksc cs : forall c s d rd r,
    alpha one c (view_of s) = Some r -> Relc r s d rd ->
    match run_chunks K c s d cs, rprun one false r s rd (concat cs) with
    | inr (St c' s' d'), Some (r', s'', rd') => s' = s'' /\ alpha one c' (view_of s') = Some r' /\ Relc r' s' d' rd'
    | inl (OErr _ _), None => True
    | _, _ => False
    end.
  Proof.
    induction cs as [|w cs IH]; intros c s d rd r A HR; simpl.
    - auto.
    - rewrite rprun_app.
      pose proof (sim_runc w c s (upd_fast d false) rd r A (Rel_resetc _ _ _ _ HR)) as H.
      destruct (run K c s (upd_fast d false) w) as [o|[c' s' d']];
        destruct (rprun one false r s rd w) as [[[r' s''] rd']|].
      + destruct o; contradiction.
      + exact H.
      + destruct H as (<- & A' & HR'). apply IH; assumption.
      + contradiction.
  Qed.

  Lemma Rel_initc : Relc RTop [] data_init rdata_init.
  Proof. split; [constructor|]. split; [constructor|]. split; [reflexivity | exact I]. Qed.

  Theorem chunks_refine cs :
    match run_all_chunks K cs with
    | OOk docs _ => exists rdocs, ref_parse one false (concat cs) = Some rdocs /\ Forall2 TRK rdocs docs
    | OErr _ _ => ref_parse one false (concat cs) = None
    | _ => False
    end.
  Proof.
    unfold run_all_chunks, ref_parse.
    pose proof (sim_chunksc cs ctl_init [] data_init rdata_init RTop eq_refl Rel_initc) as H.
    destruct (run_chunks K ctl_init [] data_init cs) as [o|[c s d]];
      destruct (rprun one false RTop [] rdata_init (concat cs)) as [[[r s'] rd]|].
    - destruct o; contradiction.
    - destruct o; try contradiction. reflexivity.
    - destruct H as (<- & A & HR).
      destruct (sweep_cell one K Hsweep c (view_of s) x00) as [_ He]. unfold end_ok in He. rewrite A in He.
      destruct (simsweep_cell one K Hsim c (view_of s) x00) as [_ Hse]; [rewrite A; discriminate|].
      unfold simend_ok in Hse. rewrite A in Hse.
      unfold finish.
      destruct (ctl_end K c (view_of s)) as [t|] eqn:E.
      + apply Bool.eqb_prop in He. rewrite <- He. apply Bool.eqb_prop in Hse. subst t.
        assert (s = []) as ->.
        { unfold ctl_end in E. destruct s as [|x [|y s]]; [reflexivity | discriminate E | discriminate E]. }
        destruct HR as (HSR & Hdocs & Hhi & Hscr).
        destruct (SRc_nil K _ _ _ _ HSR) as (Hs1 & Hs2 & Hs3 & _).
        destruct (is_num r) eqn:Hn.
        * destruct r; try discriminate Hn. simpl in Hscr.
          unfold emit_num. rewrite (emit_val_b K Hb). rewrite Hs1. simpl. rewrite (handoff_b K Hb). simpl.
          destruct rd as [fs st hx hi nt docs]. simpl in *. subst fs. simpl.
          eexists. split; [reflexivity|]. apply Forall2_app; [apply Forall2_rev'; exact Hdocs|].
          constructor; [|constructor]. eapply TR_big. exact Hscr.
        * eexists. split; [reflexivity|]. apply Forall2_rev'. exact Hdocs.
      + apply Bool.eqb_prop in He. rewrite <- He. reflexivity.
    - contradiction.
  Qed.
End CSim.

(* a value without number leaves is related to itself only *)
Lemma TR_nonum K v : forall v', nonum v = true -> TR K v v' -> v' = v.
Proof.
  induction v using jv_ind2; intros v' Hn HT; inversion HT; subst; try reflexivity; try discriminate Hn.
  - f_equal. simpl in Hn.
    match goal with H2 : Forall2 _ l _ |- _ => clear HT; revert Hn H; induction H2 as [|x y l0 l0' Hxy H2 IH]; intros Hn HF end; [reflexivity|].
    simpl in Hn. apply andb_true_iff in Hn as [Hn1 Hn]. inversion HF; subst.
    f_equal; [auto | apply IH; assumption].
  - f_equal. simpl in Hn.
    match goal with H2 : Forall2 _ m _ |- _ => clear HT; revert Hn H; induction H2 as [|[k x] [k' y] m0 m0' [Hk Hxy] H2 IH]; intros Hn HF end; [reflexivity|].
    simpl in *. apply andb_true_iff in Hn as [Hn1 Hn]. inversion HF; subst. simpl in *.
    f_equal; [f_equal; auto | apply IH; assumption].
Qed.

Section Agree.
  Variable one : bool.
  Variable K : cfg.
  Hypothesis Hb : builds K = true.
  Hypothesis Hsweep : sweep_ok one K = true.
  Hypothesis Hdsweep : dsweep_ok one K = true.
  Hypothesis Hsim : simsweep_ok K one = true.

  (* two ways of cutting the same text: same outcome, documents that are both images of the
     reference's documents *)
  Theorem chunkings_agree cs1 cs2 : concat cs1 = concat cs2 ->
    match run_all_chunks K cs1, run_all_chunks K cs2 with
    | OOk d1 _, OOk d2 _ => exists rdocs, Forall2 (TR K) rdocs d1 /\ Forall2 (TR K) rdocs d2
    | OErr _ _, OErr _ _ => True
    | _, _ => False
    end.
  Proof.
    intro E.
    pose proof (chunks_refine one K Hb Hsweep Hdsweep Hsim cs1) as H1.
    pose proof (chunks_refine one K Hb Hsweep Hdsweep Hsim cs2) as H2.
    rewrite E in H1.
    destruct (run_all_chunks K cs1) as [l1 c1| | |d1 e1]; destruct (run_all_chunks K cs2) as [l2 c2| | |d2 e2]; try contradiction; auto.
    - destruct H2 as (r2 & H2 & _). rewrite H1 in H2. discriminate H2.
    - destruct H1 as (r1 & H1 & _). rewrite H2 in H1. discriminate H1.
    - destruct H1 as (r1 & H1 & F1). destruct H2 as (r2 & H2 & F2). rewrite H1 in H2. inversion H2; subst.
      exists r2. auto.
  Qed.
End Agree.
