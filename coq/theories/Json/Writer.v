(* oj.Writer on simple/gen trees (oj/writer.go, oj/tight.go, string.go): one buffer, the
   streaming flush after every value, the trailing-comma overwrite. [lim = None] is the
   in-memory call (JSON/Marshal), [Some n] the streaming Write with WriteLimit n. *)
From Coq Require Import Init.Byte NArith ZArith List Bool Lia.
Require Import Ojg.Base.Bytes Ojg.Base.Jv Ojg.Base.Utf8 Ojg.Gen.StrMaps Ojg.Gen.Consts.
Import ListNotations.
Open Scope Z_scope.

Record wopts : Set := mkW {
  w_indent : Z; w_tab : bool; w_sort : bool; w_omit_nil : bool; w_omit_empty : bool; w_html_safe : bool }.

(* ---- AppendJSONString *)
Definition u00 (b : byte) : bytes :=
  [x5c; x75; x30; x30; hex_digit (b2z b / 16); hex_digit (b2z b mod 16)].

Fixpoint json_str_body (fuel : nat) (html : bool) (s : bytes) : bytes :=
  match fuel, s with
  | O, _ => []
  | _, [] => []
  | S f, b :: r =>
      let c := ojg_jMap b in
      if beqb c x6f then b :: json_str_body f html r
      else if beqb c x2e then u00 b ++ json_str_body f html r
      else if beqb c x68 then (if html then u00 b else [b]) ++ json_str_body f html r
      else if beqb c x38 then
        let '(rn, w) := decode_rune s in
        let w := match w with O => 1%nat | _ => w end in
        (if rn =? 8232 then [x5c; x75; x32; x30; x32; x38]
         else if rn =? 8233 then [x5c; x75; x32; x30; x32; x39]
         else if rn =? rune_error then [x5c; x75; x66; x66; x66; x64]
         else firstn w s) ++ json_str_body f html (skipn w s)
      else x5c :: c :: json_str_body f html r
  end.

Definition json_string (html : bool) (s : bytes) : bytes :=
  x22 :: json_str_body (length s) html s ++ [x22].

(* ---- indentation strings (slices of the constants "\n    ..." / "\n\t\t...") *)
Definition indent_unit (o : wopts) : byte := if w_tab o then x09 else x20.
Definition indent_cap (o : wopts) : Z := (if w_tab o then oj_tabs_len else oj_spaces_len) - 1.
Definition indent_width (o : wopts) (depth : Z) : Z :=
  Z.min (indent_cap o) (if w_tab o then depth else depth * w_indent o).
(* is: the closing indentation; cs: newline + indentation of the members *)
Definition is_str (o : wopts) (depth : Z) : bytes := repeat (indent_unit o) (Z.to_nat (indent_width o depth)).
Definition cs_str (o : wopts) (depth : Z) : bytes := x0a :: repeat (indent_unit o) (Z.to_nat (indent_width o (depth + 1))).

Definition indented (o : wopts) : bool := w_tab o || (0 <? w_indent o).

(* ---- the buffer with its flush *)
Definition wstate := (bytes * bytes)%type.   (* (already written to the io.Writer, buffer) *)

Definition app (st : wstate) (bs : bytes) : wstate := (fst st, snd st ++ bs).
Definition flush (lim : option Z) (st : wstate) : wstate :=
  match lim with
  | Some n => if n <? Z.of_nat (length (snd st)) then (fst st ++ snd st, []) else st
  | None => st
  end.
Definition set_last (st : wstate) (c : byte) : wstate := (fst st, removelast (snd st) ++ [c]).

Definition omitted (o : wopts) (v : jv) : bool :=
  match v with
  | JNull => w_omit_nil o
  | JStr [] | JObj [] | JArr [] => w_omit_empty o
  | _ => false
  end.

(* insertion sort of the members by key (sort.Strings), later duplicates cannot occur in a map *)
Fixpoint ins_member (kv : bytes * jv) (m : list (bytes * jv)) : list (bytes * jv) :=
  match m with
  | [] => [kv]
  | kv' :: m' => if bytes_leb (fst kv) (fst kv') then kv :: kv' :: m' else kv' :: ins_member kv m'
  end.
Definition sort_members (m : list (bytes * jv)) : list (bytes * jv) := fold_right ins_member [] m.

Section Write.
  Variable o : wopts.
  Variable lim : option Z.

  Fixpoint wr (depth : Z) (v : jv) (st : wstate) {struct v} : wstate :=
    let st' :=
      match v with
      | JNull => app st [x6e; x75; x6c; x6c]
      | JBool true => app st [x74; x72; x75; x65]
      | JBool false => app st [x66; x61; x6c; x73; x65]
      | JInt z => app st (format_int z)
      | JFloat t => app st t
      | JBig t => app st t
      | JStr s => app st (json_string (w_html_safe o) s)
      | JArr [] => app st [x5b; x5d]
      | JArr l =>
          let st1 := app st [x5b] in
          let st2 := (fix go (l : list jv) (st : wstate) : wstate :=
                        match l with
                        | [] => st
                        | x :: l' =>
                            let st := if indented o then app st (cs_str o depth) else st in
                            go l' (app (wr (if indented o then depth + 1 else 0) x st) [x2c])
                        end) l st1 in
          if indented o then app (app (set_last st2 x0a) (is_str o depth)) [x5d]
          else set_last st2 x5d
      | JObj m =>
          let st1 := app st [x7b] in
          let '(st2, any) :=
            (fix go (m : list (bytes * jv)) (acc : wstate * bool) : wstate * bool :=
               match m with
               | [] => acc
               | (k, x) :: m' =>
                   if omitted o x then go m' acc
                   else
                     let st := fst acc in
                     let st := if indented o then app st (cs_str o depth) else st in
                     let st := app st (json_string (w_html_safe o) k) in
                     let st := app st (if indented o then [x3a; x20] else [x3a]) in
                     go m' (app (wr (if indented o then depth + 1 else 0) x st) [x2c], true)
               end) m (st1, false) in
          if any then
            (if indented o then app (app (set_last st2 x0a) (is_str o depth)) [x7d] else set_last st2 x7d)
          else app st2 [x7d]
      end in
    flush lim st'.

End Write.

(* Sort: members in ascending key order at every level (done up front: the model writes objects
   in the order given) *)
Fixpoint sort_tree (v : jv) : jv :=
  match v with
  | JArr l => JArr (map sort_tree l)
  | JObj m => JObj (sort_members ((fix go (m : list (bytes * jv)) : list (bytes * jv) :=
                                     match m with [] => [] | (k, x) :: m' => (k, sort_tree x) :: go m' end) m))
  | _ => v
  end.

(* the whole call: a final Write of what is left in the buffer *)
Definition write_all (o : wopts) (lim : option Z) (v : jv) : bytes :=
  let st := wr o lim 0 (if w_sort o then sort_tree v else v) ([], []) in fst st ++ snd st.

(* ---- what the text must denote: members dropped by OmitNil/OmitEmpty, invalid UTF-8 replaced *)
Fixpoint sanitize_utf8 (fuel : nat) (s : bytes) : bytes :=
  match fuel, s with
  | O, _ => []
  | _, [] => []
  | S f, b :: r =>
      if b2z b <? 128 then b :: sanitize_utf8 f r
      else
        let '(rn, w) := decode_rune s in
        let w := match w with O => 1%nat | _ => w end in
        (if rn =? rune_error then encode_rune rune_error else firstn w s) ++ sanitize_utf8 f (skipn w s)
  end.
Definition sanitize (s : bytes) : bytes := sanitize_utf8 (length s) s.

Fixpoint expected (o : wopts) (v : jv) : jv :=
  match v with
  | JStr s => JStr (sanitize s)
  | JArr l => JArr (map (expected o) l)
  | JObj m => JObj ((fix go (m : list (bytes * jv)) : list (bytes * jv) :=
                       match m with
                       | [] => []
                       | (k, x) :: m' => if omitted o x then go m' else (sanitize k, expected o x) :: go m'
                       end) m)
  | _ => v
  end.
