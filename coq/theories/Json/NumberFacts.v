(* Arithmetic facts about the numeric accumulator, proved against the GENERATED thresholds
   (a changed constant or comparison in gen/number.go changes Consts.v and breaks these). *)
From Coq Require Import Init.Byte NArith ZArith List Bool Lia.
Require Import Ojg.Base.Bytes Ojg.Base.Jv Ojg.Gen.Consts Ojg.Json.Number.
Import ListNotations.
Open Scope Z_scope.

Definition digit_ok (b : byte) : Prop := 0 <= digit_val b <= 9.

Lemma is_digit_ok b : is_digit b = true -> digit_ok b.
Proof.
  unfold is_digit, digit_ok, digit_val. intro H. apply andb_true_iff in H as [H1 H2].
  apply Z.leb_le in H1, H2. lia.
Qed.

(* the literals and operators add_digit uses, as the source has them now *)
Lemma add_digit_consts :
  lit gen_num_AddDigit_ops 1 = 1 /\ lit gen_num_AddDigit_lits 1 = 922337203685477580 /\
  lit gen_num_AddDigit_lits 2 = 10 /\ lit gen_num_AddDigit_lits 3 = 48 /\
  lit gen_num_AddDigit_ops 2 = 0 /\ lit gen_num_AddDigit_lits 4 = 9223372036854775807.
Proof. vm_compute. repeat split; reflexivity. Qed.

(* no uint64 wrap-around below the threshold *)
Lemma no_wrap_digit i d : 0 <= i <= 922337203685477580 -> 0 <= d <= 9 -> wrap64 (i * 10 + d) = i * 10 + d.
Proof. intros Hi Hd. unfold wrap64, two64. apply Z.mod_small. lia. Qed.

Definition plain (n : num) (v : Z) : Prop :=
  nBig n = [] /\ nI n = v /\ nFrac n = 0 /\ nDiv n = 1 /\ nExp n = 0.

(* one digit on the slow path: either the value is still exact, or it left int64 *)
Lemma add_digit_plain n v b :
  plain n v -> 0 <= v -> digit_ok b ->
  let v' := v * 10 + digit_val b in
  (v' <= max_int64 -> plain (add_digit n b) v' /\ nNeg (add_digit n b) = nNeg n).
Proof.
  intros (Hb & Hi & Hf & Hd & He) Hv Hdig v' Hfit.
  destruct add_digit_consts as (O1 & L1 & L2 & L3 & O2 & L4).
  unfold add_digit, is_big. rewrite Hb, O1, L1, L2, L3, O2, L4. unfold cmpz. simpl (_ =? _).
  unfold digit_ok, digit_val in *. unfold max_int64 in *. subst v'.
  assert (Hle : v <= 922337203685477580) by lia.
  rewrite Hi. destruct (v <=? 922337203685477580) eqn:E; [|apply Z.leb_gt in E; lia].
  rewrite no_wrap_digit by lia.
  destruct (9223372036854775807 <? v * 10 + (b2z b - 48)) eqn:E2; [apply Z.ltb_lt in E2; lia|].
  unfold plain; simpl. repeat split; auto.
Qed.

Lemma digits_val_snoc (ds : bytes) (b : byte) : digits_val (ds ++ [b]) = digits_val ds * 10 + digit_val b.
Proof. unfold digits_val. rewrite fold_left_app. reflexivity. Qed.

Lemma digits_val_nonneg (ds : bytes) : Forall digit_ok ds -> 0 <= digits_val ds.
Proof.
  induction ds as [|b ds IH] using rev_ind; intro H.
  - unfold digits_val; simpl; lia.
  - rewrite digits_val_snoc. apply Forall_app in H as [H1 H2]. inversion H2; subst.
    specialize (IH H1). unfold digit_ok in *. lia.
Qed.

Lemma digits_val_prefix_le (ds : bytes) (b : byte) : Forall digit_ok (ds ++ [b]) -> digits_val ds <= digits_val (ds ++ [b]).
Proof.
  intro H. rewrite digits_val_snoc. apply Forall_app in H as [H1 H2]. inversion H2; subst.
  pose proof (digits_val_nonneg ds H1). unfold digit_ok in *. lia.
Qed.

(* C02, integer clause on the digit-at-a-time path: a plain integer literal whose magnitude fits
   int64 comes back as exactly that int64, whatever its length (leading zeros included). *)
Theorem slow_int_exact (ds : bytes) (neg : bool) :
  Forall digit_ok ds -> digits_val ds <= max_int64 ->
  let n := fold_left add_digit ds (if neg then set_neg num_reset else num_reset) in
  as_num n = JInt (if neg then - digits_val ds else digits_val ds).
Proof.
  intros Hds Hfit n.
  assert (P : plain n (digits_val ds) /\ nNeg n = neg).
  { subst n. induction ds as [|b ds IH] using rev_ind.
    - destruct neg; unfold plain, digits_val; simpl; repeat split; reflexivity.
    - rewrite fold_left_app. simpl.
      pose proof (digits_val_prefix_le ds b Hds) as Hle.
      apply Forall_app in Hds as [H1 H2]. inversion H2; subst.
      specialize (IH H1 ltac:(lia)). destruct IH as [IH1 IH2].
      pose proof (add_digit_plain _ _ b IH1 (digits_val_nonneg ds H1) H3) as Hs. simpl in Hs.
      rewrite digits_val_snoc in *. specialize (Hs Hfit). destruct Hs as [Hs1 Hs2].
      split; [exact Hs1|congruence]. }
  destruct P as [(Hb & Hi & Hf & Hd & He) Hn].
  unfold as_num, is_big. rewrite Hb, Hd, He. simpl.
  unfold int_result, to_int64. rewrite Hi, Hn.
  pose proof (digits_val_nonneg ds Hds).
  destruct (digits_val ds <=? max_int64) eqn:E; [|apply Z.leb_gt in E; lia].
  destruct neg; [|reflexivity].
  unfold neg_int64. destruct (digits_val ds =? - max_int64 - 1) eqn:E2; [apply Z.eqb_eq in E2; unfold max_int64 in *; lia|reflexivity].
Qed.

(* the same literal through the scan-ahead loop of one buffer (fast_digit of Machine.v is
   modelled there); the recorded known finding is exactly the gap between the two: *)
Example fast_path_gap :
  as_num (fold_left add_digit [x39;x32;x32;x33;x33;x37;x32;x30;x33;x36;x38;x35;x34;x37;x37;x35;x38;x30;x37] num_reset)
  = JInt 9223372036854775807.
Proof. vm_compute. reflexivity. Qed.
