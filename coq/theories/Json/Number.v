(* gen.Number: the numeric accumulator shared by all parsers (gen/number.go).
   uint64 fields are Z with explicit wrap-around. Thresholds and comparison
   operators come from the generated Consts.v (indexes into the per-function lists). *)
From Coq Require Import Init.Byte NArith ZArith List Bool Lia.
Require Import Ojg.Base.Bytes Ojg.Base.Jv Ojg.Gen.Consts.
Import ListNotations.
Open Scope Z_scope.

Record num : Set := mkNum {
  nI : Z; nFrac : Z; nDiv : Z; nExp : Z; nNeg : bool; nNegExp : bool; nBig : bytes }.

Definition num_reset : num := mkNum 0 0 1 0 false false [].

(* comparison selected by the operator the source uses: 0 <, 1 <=, 2 ==, 3 !=, 4 >, 5 >= *)
Definition cmpz (tag a b : Z) : bool :=
  if tag =? 0 then a <? b else if tag =? 1 then a <=? b else if tag =? 2 then a =? b
  else if tag =? 3 then negb (a =? b) else if tag =? 4 then a >? b else a >=? b.

Definition lit (l : list Z) (i : nat) : Z := nth i l 0.

(* FillBig's text *)
Definition fill_text (n : num) : bytes :=
  (if nNeg n then [x2d] else []) ++ format_uint (nI n) ++
  (if cmpz (lit gen_num_FillBig_ops 0) (lit gen_num_FillBig_lits 0) (nDiv n) then
     x2e :: (if cmpz (lit gen_num_FillBig_ops 1) (lit gen_num_FillBig_lits 1) (nFrac n)
             then format_uint (nFrac n)
             else tl (format_uint (wrap64 (nFrac n + nDiv n))))
   else []) ++
  (if cmpz (lit gen_num_FillBig_ops 2) (lit gen_num_FillBig_lits 2) (nExp n) then
     x65 :: (if nNegExp n then [x2d] else []) ++ format_uint (nExp n)
   else []).

Definition fill_big (n : num) : num :=
  mkNum (nI n) (nFrac n) (nDiv n) (nExp n) (nNeg n) (nNegExp n) (nBig n ++ fill_text n).

Definition push_big (n : num) (b : byte) : num :=
  mkNum (nI n) (nFrac n) (nDiv n) (nExp n) (nNeg n) (nNegExp n) (nBig n ++ [b]).

Definition is_big (n : num) : bool := match nBig n with [] => false | _ => true end.

Definition add_digit (n : num) (b : byte) : num :=
  if is_big n then push_big n b
  else if cmpz (lit gen_num_AddDigit_ops 1) (nI n) (lit gen_num_AddDigit_lits 1) then
    let i := wrap64 (nI n * lit gen_num_AddDigit_lits 2 + (b2z b - lit gen_num_AddDigit_lits 3)) in
    let n' := mkNum i (nFrac n) (nDiv n) (nExp n) (nNeg n) (nNegExp n) (nBig n) in
    if cmpz (lit gen_num_AddDigit_ops 2) (lit gen_num_AddDigit_lits 4) i then fill_big n' else n'
  else push_big (fill_big n) b.

Definition add_frac (n : num) (b : byte) : num :=
  if is_big n then push_big n b
  else if cmpz (lit gen_num_AddFrac_ops 1) (nDiv n) (lit gen_num_AddFrac_lits 1) then
    let f := wrap64 (nFrac n * lit gen_num_AddFrac_lits 2 + (b2z b - lit gen_num_AddFrac_lits 3)) in
    let d := wrap64 (nDiv n * lit gen_num_AddFrac_lits 4) in
    let n' := mkNum (nI n) f d (nExp n) (nNeg n) (nNegExp n) (nBig n) in
    if cmpz (lit gen_num_AddFrac_ops 2) (lit gen_num_AddFrac_lits 5) f then fill_big n' else n'
  else push_big (fill_big n) b.

Definition add_exp (n : num) (b : byte) : num :=
  if is_big n then push_big n b
  else if cmpz (lit gen_num_AddExp_ops 1) (nExp n) (lit gen_num_AddExp_lits 1) then
    let e := wrap64 (nExp n * lit gen_num_AddExp_lits 2 + (b2z b - lit gen_num_AddExp_lits 3)) in
    let n' := mkNum (nI n) (nFrac n) (nDiv n) e (nNeg n) (nNegExp n) (nBig n) in
    if cmpz (lit gen_num_AddExp_ops 2) (lit gen_num_AddExp_lits 4) e then fill_big n' else n'
  else push_big (fill_big n) b.

Definition set_neg (n : num) : num := mkNum (nI n) (nFrac n) (nDiv n) (nExp n) true (nNegExp n) (nBig n).
Definition set_negexp (n : num) : num := mkNum (nI n) (nFrac n) (nDiv n) (nExp n) (nNeg n) true (nBig n).
Definition set_I (n : num) (i : Z) : num := mkNum i (nFrac n) (nDiv n) (nExp n) (nNeg n) (nNegExp n) (nBig n).

Definition int_result (n : num) : Z :=
  let i := to_int64 (nI n) in if nNeg n then neg_int64 i else i.

(* AsNum with the default conversion method (json.Number for big numbers). The float is
   strconv.ParseFloat of the text, which the harness applies to the model's text. *)
Definition as_num (n : num) : jv :=
  if is_big n then JBig (nBig n)
  else if (nDiv n =? 1) && (nExp n =? 0) then JInt (int_result n)
  else JFloat (fill_text n).

(* AsNode (gen): Int when Div == 1 && Exp == 0, as AsNum *)
Definition as_node (n : num) : jv :=
  if is_big n then JBig (nBig n)
  else if (nDiv n =? 1) && (nExp n =? 0) then JInt (int_result n)
  else JFloat (fill_text n).
