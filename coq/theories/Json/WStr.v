(* C04, strings: the reference parser reads what AppendJSONString writes back as the sanitized
   string (invalid UTF-8 replaced by U+FFFD). Byte classes come from the regenerated table
   ojg_jMap (string.go). *)
From Coq Require Import Init.Byte NArith ZArith List Bool Lia.
Require Import Ojg.Base.Bytes Ojg.Base.Jv Ojg.Base.Utf8 Ojg.Gen.StrMaps Ojg.Json.Fmt Ojg.Json.Machine Ojg.Json.Ref Ojg.Json.RefParse Ojg.Json.Sweep Ojg.Json.Writer Ojg.Json.ValueSim Ojg.Json.TokSim.
Import ListNotations.
Open Scope Z_scope.

(* ---- byte classes of jMap, by exhaustion over the 256 bytes *)
Definition plain_ok (b : byte) : bool :=
  negb (beqb b x22) && negb (beqb b x5c) && (32 <=? b2z b) && (b2z b <? 128).

Definition class_ok (b : byte) : bool :=
  let c := ojg_jMap b in
  if beqb c x6f then plain_ok b
  else if beqb c x2e then (b2z b <? 128)
  else if beqb c x68 then plain_ok b
  else if beqb c x38 then (128 <=? b2z b)
  else is_esc c && beqb (esc_byte c) b && negb (beqb c x75) && (b2z b <? 128).

Lemma class_sweep : forallb class_ok all_bytes = true.
Proof. vm_compute. reflexivity. Qed.

Lemma class_of b : class_ok b = true.
Proof. pose proof class_sweep as H. rewrite forallb_forall in H. apply H. apply all_bytes_complete. Qed.

(* ---- the reference inside a string: data in a normal form *)
Definition strd (d : rdata) (out : bytes) (hx : Z) : rdata :=
  mkR (r_frames d) (rev out ++ r_str d) hx None (r_numt d) (r_docs d).

Section Str.
  Variable one : bool.
  Notation run := (rprun one false).

  Lemma str_plain k s d out hx b rest :
    beqb b x22 = false -> beqb b x5c = false -> (b2z b <? 32) = false ->
    run (RStr k) s (strd d out hx) (b :: rest) = run (RStr k) s (strd d (out ++ [b]) hx) rest.
  Proof.
    intros H1 H2 H3. simpl. rewrite H1, H2, H3. simpl.
    unfold rdata_step. simpl. rewrite H1, H2. unfold app_str, flush_hi. simpl.
    unfold strd. rewrite rev_app_distr. simpl. reflexivity.
  Qed.

  Lemma str_plain_list k s d bs : forall out hx rest,
    Forall (fun b => 128 <= b2z b) bs ->
    run (RStr k) s (strd d out hx) (bs ++ rest) = run (RStr k) s (strd d (out ++ bs) hx) rest.
  Proof.
    induction bs as [|b bs IH]; intros out hx rest H.
    - simpl. rewrite app_nil_r. reflexivity.
    - inversion H; subst. change ((b :: bs) ++ rest) with (b :: (bs ++ rest)). rewrite str_plain.
      + rewrite IH by assumption. rewrite <- app_assoc. reflexivity.
      + destruct (beqb b x22) eqn:E; [|reflexivity]. apply beqb_eq in E. subst b. apply Z.leb_le in H2. vm_compute in H2. discriminate H2.
      + destruct (beqb b x5c) eqn:E; [|reflexivity]. apply beqb_eq in E. subst b. apply Z.leb_le in H2. vm_compute in H2. discriminate H2.
      + apply Z.ltb_ge. lia.
  Qed.

  Lemma str_esc k s d out hx c rest :
    is_esc c = true -> beqb c x75 = false ->
    run (RStr k) s (strd d out hx) (x5c :: c :: rest) = run (RStr k) s (strd d (out ++ [esc_byte c]) hx) rest.
  Proof.
    intros H1 H2. simpl. rewrite H1. simpl.
    unfold rdata_step. simpl. rewrite H2. unfold app_str, flush_hi. simpl.
    unfold strd. rewrite rev_app_distr. simpl. reflexivity.
  Qed.

  (* \uXXXX with four hex digits: the code unit, encoded *)
  Lemma str_u4 k s d out hx h1 h2 h3 h4 rest :
    is_hex h1 = true -> is_hex h2 = true -> is_hex h3 = true -> is_hex h4 = true ->
    run (RStr k) s (strd d out hx) (x5c :: x75 :: h1 :: h2 :: h3 :: h4 :: rest) =
    run (RStr k) s (strd d (out ++ encode_rune (((hex_val h1 * 16 + hex_val h2) * 16 + hex_val h3) * 16 + hex_val h4)) 0) rest.
  Proof.
    intros H1 H2 H3 H4. simpl. rewrite H1. simpl. rewrite H2. simpl. rewrite H3. simpl. rewrite H4. simpl.
    unfold rdata_step, code_unit. simpl.
    unfold strd. simpl. rewrite rev_app_distr, <- app_assoc. reflexivity.
  Qed.
End Str.

(* ---- facts about the writer's escape pieces *)
Definition u00_ok (b : byte) : bool :=
  if b2z b <? 128 then
    let h1 := hex_digit (b2z b / 16) in
    let h2 := hex_digit (b2z b mod 16) in
    is_hex h1 && is_hex h2 && ((((hex_val x30 * 16 + hex_val x30) * 16 + hex_val h1) * 16 + hex_val h2) =? b2z b) &&
    bytes_eqb (encode_rune (b2z b)) [b]
  else true.
Lemma u00_sweep : forallb u00_ok all_bytes = true.
Proof. vm_compute. reflexivity. Qed.
Lemma u00_of b : u00_ok b = true.
Proof. pose proof u00_sweep as H. rewrite forallb_forall in H. apply H. apply all_bytes_complete. Qed.

Section Str2.
  Variable one : bool.
  Notation run := (rprun one false).

  Lemma u00_run k s d out hx b rest :
    (b2z b <? 128) = true ->
    run (RStr k) s (strd d out hx) (u00 b ++ rest) = run (RStr k) s (strd d (out ++ [b]) 0) rest.
  Proof.
    intro Hb. pose proof (u00_of b) as H. unfold u00_ok in H. rewrite Hb in H.
    apply andb_true_iff in H as [H He]. apply andb_true_iff in H as [H Hv]. apply andb_true_iff in H as [H1 H2].
    apply Z.eqb_eq in Hv. apply bytes_eqb_eq in He.
    change (u00 b ++ rest) with (x5c :: x75 :: x30 :: x30 :: hex_digit (b2z b / 16) :: hex_digit (b2z b mod 16) :: rest).
    rewrite (str_u4 one k s d out hx x30 x30 _ _ rest eq_refl eq_refl H1 H2).
    rewrite Hv, He. reflexivity.
  Qed.
End Str2.

(* ---- utf8.DecodeRune on a byte >= 0x80 *)
Definition high (b : byte) : Prop := 128 <= b2z b.

Lemma decode_high b0 t :
  128 <= b2z b0 ->
  let '(rn, w) := decode_rune (b0 :: t) in
  (rn = rune_error /\ (w = 1%nat \/ w = 3%nat) /\ (w <= length (b0 :: t))%nat) \/
  (rn <> rune_error /\ (2 <= w <= 4)%nat /\ (w <= length (b0 :: t))%nat /\ Forall high (firstn w (b0 :: t)) /\
   (rn = 8232 -> firstn w (b0 :: t) = [xe2; x80; xa8]) /\ (rn = 8233 -> firstn w (b0 :: t) = [xe2; x80; xa9])).
Proof.
  intro H0. unfold decode_rune.
  destruct (b2z b0 <? 128) eqn:E1; [apply Z.ltb_lt in E1; lia|].
  destruct (b2z b0 <? 194) eqn:E2; [left; simpl; repeat split; auto; lia|].
  apply Z.ltb_ge in E2.
  destruct (b2z b0 <? 224) eqn:E3.
  - apply Z.ltb_lt in E3. destruct t as [|b1 t]; [left; simpl; repeat split; auto; lia|].
    unfold is_cont. destruct ((128 <=? b2z b1) && (b2z b1 <=? 191)) eqn:C1; [|left; simpl; repeat split; auto; lia].
    apply andb_true_iff in C1 as [C1a C1b]. apply Z.leb_le in C1a, C1b.
    right. unfold rune_error. split; [lia|]. split; [lia|]. split; [simpl; lia|]. split.
    + simpl. repeat constructor; unfold high; lia.
    + split; intro; lia.
  - apply Z.ltb_ge in E3. destruct (b2z b0 <? 240) eqn:E4.
    + apply Z.ltb_lt in E4. destruct t as [|b1 [|b2 t]]; try (left; simpl; repeat split; auto; lia).
      set (lo := if b2z b0 =? 224 then 160 else 128). set (hi := if b2z b0 =? 237 then 159 else 191).
      unfold is_cont.
      destruct ((lo <=? b2z b1) && (b2z b1 <=? hi) && ((128 <=? b2z b2) && (b2z b2 <=? 191))) eqn:C; [|left; simpl; repeat split; auto; lia].
      apply andb_true_iff in C as [C C2]. apply andb_true_iff in C as [Cl Ch]. apply andb_true_iff in C2 as [C2a C2b].
      apply Z.leb_le in Cl, Ch, C2a, C2b.
      assert (Hlo : 128 <= lo) by (unfold lo; destruct (b2z b0 =? 224); lia).
      assert (Hhi : hi <= 191) by (unfold hi; destruct (b2z b0 =? 237); lia).
      destruct (Z.eq_dec ((b2z b0 - 224) * 4096 + (b2z b1 - 128) * 64 + (b2z b2 - 128)) rune_error) as [Ee|Ne].
      * left. split; [exact Ee|]. split; [right; reflexivity | simpl; lia].
      * right. split; [exact Ne|]. split; [lia|]. split; [simpl; lia|]. split.
        { simpl. repeat constructor; unfold high; lia. }
        assert (Hb : forall x y z : byte, b2z x = b2z y -> x = y).
        { intros x y _ Hxy. rewrite <- (z2b_b2z x), <- (z2b_b2z y), Hxy. reflexivity. }
        split; intro Hr.
        { assert (b2z b0 = 226 /\ b2z b1 = 128 /\ b2z b2 = 168) as (A0 & A1 & A2) by lia.
          simpl. f_equal; [apply (Hb _ _ x00); rewrite A0; reflexivity|]. f_equal; [apply (Hb _ _ x00); rewrite A1; reflexivity|].
          f_equal. apply (Hb _ _ x00). rewrite A2. reflexivity. }
        { assert (b2z b0 = 226 /\ b2z b1 = 128 /\ b2z b2 = 169) as (A0 & A1 & A2) by lia.
          simpl. f_equal; [apply (Hb _ _ x00); rewrite A0; reflexivity|]. f_equal; [apply (Hb _ _ x00); rewrite A1; reflexivity|].
          f_equal. apply (Hb _ _ x00). rewrite A2. reflexivity. }
    + apply Z.ltb_ge in E4. destruct (b2z b0 <? 245) eqn:E5; [|left; simpl; repeat split; auto; lia].
      apply Z.ltb_lt in E5. destruct t as [|b1 [|b2 [|b3 t]]]; try (left; simpl; repeat split; auto; lia).
      set (lo := if b2z b0 =? 240 then 144 else 128). set (hi := if b2z b0 =? 244 then 143 else 191).
      unfold is_cont.
      destruct ((lo <=? b2z b1) && (b2z b1 <=? hi) && ((128 <=? b2z b2) && (b2z b2 <=? 191)) && ((128 <=? b2z b3) && (b2z b3 <=? 191))) eqn:C; [|left; simpl; repeat split; auto; lia].
      apply andb_true_iff in C as [C C3]. apply andb_true_iff in C as [C C2]. apply andb_true_iff in C as [Cl Ch].
      apply andb_true_iff in C2 as [C2a C2b]. apply andb_true_iff in C3 as [C3a C3b].
      apply Z.leb_le in Cl, Ch, C2a, C2b, C3a, C3b.
      assert (Hlo : 128 <= lo) by (unfold lo; destruct (b2z b0 =? 240); lia).
      assert (Hlo2 : b2z b0 = 240 -> 144 <= lo) by (intro E; unfold lo; rewrite E; simpl; lia).
      assert (Hhi : hi <= 191) by (unfold hi; destruct (b2z b0 =? 244); lia).
      right. unfold rune_error.
      assert (65536 <= (b2z b0 - 240) * 262144 + (b2z b1 - 128) * 4096 + (b2z b2 - 128) * 64 + (b2z b3 - 128)).
      { destruct (Z.eq_dec (b2z b0) 240) as [E|E]; [specialize (Hlo2 E)|]; lia. }
      split; [lia|]. split; [lia|]. split; [simpl; lia|]. split.
      * simpl. repeat constructor; unfold high; lia.
      * split; intro; lia.
Qed.

Section Body.
  Variable one : bool.
  Notation run := (rprun one false).

  Lemma u_fixed k s d out hx h1 h2 h3 h4 v rest :
    is_hex h1 = true -> is_hex h2 = true -> is_hex h3 = true -> is_hex h4 = true ->
    ((hex_val h1 * 16 + hex_val h2) * 16 + hex_val h3) * 16 + hex_val h4 = v ->
    run (RStr k) s (strd d out hx) ([x5c; x75; h1; h2; h3; h4] ++ rest) = run (RStr k) s (strd d (out ++ encode_rune v) 0) rest.
  Proof. intros A B C D <-. apply str_u4; assumption. Qed.

  Lemma body_run fuel : forall html s out hx k st d rest, (length s <= fuel)%nat ->
    exists hx', run (RStr k) st (strd d out hx) (json_str_body fuel html s ++ rest) =
                run (RStr k) st (strd d (out ++ sanitize_utf8 fuel s) hx') rest.
  Proof.
    induction fuel as [|f IH]; intros html s out hx k st d rest Hlen.
    - destruct s; [|simpl in Hlen; lia]. simpl. rewrite app_nil_r. eauto.
    - destruct s as [|b r]; [simpl; rewrite app_nil_r; eauto|].
      simpl in Hlen. assert (Hr : (length r <= f)%nat) by lia.
      pose proof (class_of b) as HC. unfold class_ok in HC.
      cbn [json_str_body sanitize_utf8].
      destruct (beqb (ojg_jMap b) x6f) eqn:Co.
      { unfold plain_ok in HC. apply andb_true_iff in HC as [HC H4]. apply andb_true_iff in HC as [HC H3]. apply andb_true_iff in HC as [H1 H2].
        apply negb_true_iff in H1, H2. rewrite H4.
        change ((b :: json_str_body f html r) ++ rest) with (b :: (json_str_body f html r ++ rest)).
        rewrite str_plain; [|exact H1|exact H2|apply Z.ltb_ge; apply Z.leb_le in H3; lia].
        destruct (IH html r (out ++ [b]) hx k st d rest Hr) as (hx' & ->). exists hx'. rewrite <- app_assoc. reflexivity. }
      destruct (beqb (ojg_jMap b) x2e) eqn:Cd.
      { rewrite HC. rewrite <- app_assoc. rewrite u00_run by exact HC.
        destruct (IH html r (out ++ [b]) 0 k st d rest Hr) as (hx' & ->). exists hx'. rewrite <- app_assoc. reflexivity. }
      destruct (beqb (ojg_jMap b) x68) eqn:Ch.
      { unfold plain_ok in HC. apply andb_true_iff in HC as [HC H4]. apply andb_true_iff in HC as [HC H3]. apply andb_true_iff in HC as [H1 H2].
        apply negb_true_iff in H1, H2. rewrite H4. rewrite <- app_assoc. destruct html.
        - rewrite u00_run by exact H4.
          destruct (IH true r (out ++ [b]) 0 k st d rest Hr) as (hx' & ->). exists hx'. rewrite <- app_assoc. reflexivity.
        - change ([b] ++ json_str_body f false r ++ rest) with (b :: (json_str_body f false r ++ rest)).
          rewrite str_plain; [|exact H1|exact H2|apply Z.ltb_ge; apply Z.leb_le in H3; lia].
          destruct (IH false r (out ++ [b]) hx k st d rest Hr) as (hx' & ->). exists hx'. rewrite <- app_assoc. reflexivity. }
      destruct (beqb (ojg_jMap b) x38) eqn:C8.
      { apply Z.leb_le in HC.
        destruct (b2z b <? 128) eqn:E128; [apply Z.ltb_lt in E128; lia|].
        pose proof (decode_high b r HC) as HD.
        destruct (decode_rune (b :: r)) as [rn w] eqn:ED.
        set (w' := match w with O => 1%nat | _ => w end).
        assert (Hw : (1 <= w' <= S (length r))%nat /\ (w <> 0%nat -> w' = w)).
        { unfold w'. destruct HD as [(_ & [->| ->] & Hl)|(_ & Hw2 & Hl & _)]; simpl in *; [lia|lia|]. destruct w; [lia|]. split; [simpl in *; lia | reflexivity]. }
        destruct Hw as [Hw1 Hw2].
        assert (Hsk : (length (skipn w' (b :: r)) <= f)%nat).
        { rewrite skipn_length. cbn [length]. lia. }
        rewrite <- app_assoc.
        destruct HD as [(Hrn & Hw & Hl)|(Hrn & Hw & Hl & Hhigh & H28 & H29)].
        - (* the replacement character, or invalid bytes *)
          subst rn. simpl (rune_error =? 8232). simpl (rune_error =? 8233). rewrite Z.eqb_refl.
          rewrite (u_fixed k st d out hx x66 x66 x66 x64 rune_error) by reflexivity.
          destruct (IH html (skipn w' (b :: r)) (out ++ encode_rune rune_error) 0 k st d rest Hsk) as (hx' & ->).
          exists hx'. rewrite <- app_assoc. reflexivity.
        - assert (Ew : w' = w) by (apply Hw2; lia). rewrite Ew in *.
          destruct (rn =? rune_error) eqn:Er; [apply Z.eqb_eq in Er; contradiction|].
          destruct (rn =? 8232) eqn:E28.
          + apply Z.eqb_eq in E28. rewrite (H28 E28).
            rewrite (u_fixed k st d out hx x32 x30 x32 x38 8232) by reflexivity.
            destruct (IH html (skipn w (b :: r)) (out ++ encode_rune 8232) 0 k st d rest Hsk) as (hx' & ->).
            exists hx'. rewrite <- app_assoc. reflexivity.
          + destruct (rn =? 8233) eqn:E29.
            * apply Z.eqb_eq in E29. rewrite (H29 E29).
              rewrite (u_fixed k st d out hx x32 x30 x32 x39 8233) by reflexivity.
              destruct (IH html (skipn w (b :: r)) (out ++ encode_rune 8233) 0 k st d rest Hsk) as (hx' & ->).
              exists hx'. rewrite <- app_assoc. reflexivity.
            * rewrite (str_plain_list one k st d (firstn w (b :: r)) out hx _ Hhigh).
              destruct (IH html (skipn w (b :: r)) (out ++ firstn w (b :: r)) hx k st d rest Hsk) as (hx' & ->).
              exists hx'. rewrite <- app_assoc. reflexivity. }
      { (* a two-character escape *)
        apply andb_true_iff in HC as [HC H4]. apply andb_true_iff in HC as [HC H3]. apply andb_true_iff in HC as [H1 H2].
        apply negb_true_iff in H3. apply beqb_eq in H2. rewrite H4.
        change ((x5c :: ojg_jMap b :: json_str_body f html r) ++ rest) with (x5c :: ojg_jMap b :: (json_str_body f html r ++ rest)).
        rewrite str_esc by assumption. rewrite H2.
        destruct (IH html r (out ++ [b]) hx k st d rest Hr) as (hx' & ->). exists hx'. rewrite <- app_assoc. reflexivity. }
  Qed.
End Body.
