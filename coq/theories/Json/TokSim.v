(* C02 / C03 for oj.Tokenizer: for EVERY list of read buffers the callbacks the tokenizer makes are
   the reference parser's event stream of the whole text, number events up to the number builder
   (as in ChunkSim.v). *)
From Coq Require Import Init.Byte NArith ZArith List Bool Lia.
Require Import Ojg.Base.Bytes Ojg.Base.Jv Ojg.Base.Utf8 Ojg.Gen.OjMaps Ojg.Json.Number Ojg.Json.Machine Ojg.Json.Ref Ojg.Json.RefParse Ojg.Json.Sweep Ojg.Json.DataInv Ojg.Json.Frontends Ojg.Json.ValueSim Ojg.Json.ChunkSim.
Import ListNotations.
Open Scope Z_scope.

(* ---------------------------------------------------------- the reference's event stream *)

Definition lit_ev (l : lit) : ev :=
  match l with LTrue => EBool true | LFalse => EBool false | LNull => ENull end.

(* events of one reference transition, in time order; numbers as their literal text *)
Definition rev_step (m m' : rmode) (op : sop) (b : byte) (s : list bool) (rd : rdata) : list ev :=
  (if is_num m && negb (is_num m') then [ENumber (rev (r_numt rd))] else []) ++
  (match m with
   | RStr k => if beqb b x22 then [if k then EKey (rev (r_str rd)) else EString (rev (r_str rd))] else []
   | RLit l n => if n + 1 =? Z.of_nat (length (lit_word l)) then [lit_ev l] else []
   | _ => []
   end) ++
  (match op with
   | SPush true => [EObjStart]
   | SPush false => [EArrStart]
   | SPop => [match s with true :: _ => EObjEnd | _ => EArrEnd end]
   | SNone => []
   end).

Section RefEv.
  Variable one : bool.

  (* events newest first *)
  Fixpoint rerun (m : rmode) (s : list bool) (d : rdata) (evs : list ev) (w : bytes)
    : option (rmode * list bool * rdata * list ev) :=
    match w with
    | [] => Some (m, s, d, evs)
    | b :: w' =>
        match rstep one m (view_of s) b with
        | Some (m', op) =>
            rerun m' (apply_sop op s) (rdata_step false m m' op b d) (rev (rev_step m m' op b s d) ++ evs) w'
        | None => None
        end
    end.

  (* None = rejected; Some evs = the event stream of the text, oldest first *)
  Definition ref_events (w : bytes) : option (list ev) :=
    match rerun RTop [] rdata_init [] w with
    | Some (m, s, d, evs) =>
        if rend m (view_of s) then
          Some (rev (if is_num m then ENumber (rev (r_numt d)) :: evs else evs))
        else None
    | None => None
    end.

  Lemma rerun_app a : forall b m s d evs,
    rerun m s d evs (a ++ b) =
    match rerun m s d evs a with Some (m', s', d', evs') => rerun m' s' d' evs' b | None => None end.
  Proof.
    induction a as [|x a IH]; intros b m s d evs; simpl; [reflexivity|].
    destruct (rstep one m (view_of s) x) as [[m' op]|]; [apply IH | reflexivity].
  Qed.
End RefEv.

(* number events up to the builder *)
Inductive EvR : ev -> ev -> Prop :=
  | EvR_num t p n f : NB t p n f -> EvR (ENumber t) (num_event n)
  | EvR_null : EvR ENull ENull
  | EvR_bool b : EvR (EBool b) (EBool b)
  | EvR_str s : EvR (EString s) (EString s)
  | EvR_key s : EvR (EKey s) (EKey s)
  | EvR_os : EvR EObjStart EObjStart
  | EvR_oe : EvR EObjEnd EObjEnd
  | EvR_as : EvR EArrStart EArrStart
  | EvR_ae : EvR EArrEnd EArrEnd.

(* ------------------------------------------------------------------- the sweep *)

Section TC.
  Variable K : cfg.

  Definition close_kind_ok (a : action) (v : view) : bool :=
    (act_eqb a A_closeObject && top_obj v) || (act_eqb a A_closeArray && top_arr v).

  Definition tcompat (c : fctl) (v : view) (b : byte) (r r' : rmode) (op : sop) : bool :=
    let m := c_mode c in
    let a := k_tab K m b in
    dfacts c b r r' &&
    match r with
    | RStr k =>
        if beqb b x22 then act_eqb a A_strQuote && Bool.eqb (mode_eqb (c_next c) M_colonMap) k && sop_eqb op SNone
        else if beqb b x5c then act_eqb a A_strSlash && sop_eqb op SNone
        else act_eqb a A_strOk && sop_eqb op SNone
    | REsc k =>
        sop_eqb op SNone &&
        if beqb b x75 then act_eqb a A_escU
        else act_eqb a A_escOk && match k_data K m b with Some e => beqb e (esc_byte b) | None => false end
    | RHex k n => act_eqb a A_uOk && sop_eqb op SNone
    | RLit l n => act_eqb a A_tokenOk && sop_eqb op SNone && match lit_probe K m with Some l' => lit_eqb l l' | None => false end
    | RNum p =>
        match r' with
        | RNum p' => sop_eqb op SNone && match exp_act p b with Some e => act_eqb a e | None => false end
        | _ =>
            match op with
            | SNone => act_in a [A_numSpc; A_numNewline; A_numComma]
            | SPop => fin_is K m 110 && close_kind_ok a v
            | _ => false
            end
        end
    | _ =>
        match r' with
        | RStr _ => act_in a [A_valQuote; A_keyQuote] && sop_eqb op SNone
        | RNum NNeg => act_eqb a A_valNeg && sop_eqb op SNone
        | RNum NZero => act_eqb a A_val0 && sop_eqb op SNone
        | RNum NInt => act_eqb a A_valDigit && sop_eqb op SNone
        | RNum _ => false
        | RLit LNull _ => act_eqb a A_valNull && sop_eqb op SNone
        | RLit LTrue _ => act_eqb a A_valTrue && sop_eqb op SNone
        | RLit LFalse _ => act_eqb a A_valFalse && sop_eqb op SNone
        | _ =>
            match op with
            | SPush true => act_eqb a A_openObject
            | SPush false => act_eqb a A_openArray
            | SPop => negb (fin_is K m 110) && close_kind_ok a v
            | SNone => act_in a [A_skipChar; A_skipNewline; A_colonColon; A_afterComma]
            end
        end
    end.

  Definition tokcell_ok (one : bool) (c : fctl) (v : view) (b : byte) : bool :=
    match alpha one c v with
    | None => true
    | Some r =>
        match ctl_step K c v b, rstep one r v b with
        | COk c' op _, Some (r', _) => tcompat c v b r r' op
        | _, _ => true
        end
    end.

  Definition toksweep_ok (one : bool) : bool :=
    forallb (fun m => forallb (fun nx => forallb (fun ri => forallb (fun v =>
      simend_ok K one (mkCtl m nx ri) v &&
      forallb (fun b => tokcell_ok one (mkCtl m nx ri) v b) all_bytes) all_views) all_ris) nexts) all_modes.
End TC.


(* ------------------------------------------------------------------- one byte *)

Lemma close_top_hi rd : r_hi (close_top rd) = r_hi rd.
Proof. unfold close_top. destruct (r_frames rd); [reflexivity|]. rewrite add_value_hi. reflexivity. Qed.

Lemma rdata_step_hi r r' op b rd : r_hi rd = None -> r_hi (rdata_step false r r' op b rd) = None.
Proof.
  intro H. unfold rdata_step. cbv zeta.
  set (d1 := if is_num r && negb (is_num r') then add_value (set_numt rd []) (JBig (rev (r_numt rd))) else rd).
  assert (H1 : r_hi d1 = None).
  { unfold d1. destruct (is_num r && negb (is_num r')); [rewrite add_value_hi; exact H | exact H]. }
  clearbody d1.
  match goal with |- r_hi (match op with SNone => ?x | _ => _ end) = None => set (d2 := x) end.
  assert (H2 : r_hi d2 = None).
  { unfold d2. cbv zeta. destruct r; try (destruct r'; simpl; first [exact H1 | reflexivity]).
    - (* RStr *) destruct (beqb b x22).
      + rewrite (flush_hi_none _ H1). destruct key.
        * destruct (r_frames d1) as [|[|] ?]; simpl; exact H1.
        * rewrite add_value_hi. exact H1.
      + destruct (beqb b x5c); [exact H1|]. unfold app_str. reflexivity.
    - (* REsc *) destruct (beqb b x75); [exact H1 | unfold app_str; reflexivity].
    - (* RHex *) destruct (n =? 3); [reflexivity | exact H1].
    - (* RLit *) destruct (n + 1 =? Z.of_nat (length (lit_word l))); [rewrite add_value_hi; exact H1 | exact H1].
  }
  clearbody d2.
  destruct op as [|[|]|]; simpl; try exact H2. rewrite close_top_hi. exact H2.
Qed.

Section TSim.
  Variable one : bool.
  Variable K : cfg.
  Hypothesis Hk : k_kind K = KTokenizer.

  Definition RelT (r : rmode) (d : data) (rd : rdata) (revs : list ev) : Prop :=
    Forall2 EvR revs (d_evs d) /\ r_hi rd = None /\ scratch_relc r d rd.

  Lemma t_has_num : has_num K = true.
  Proof. unfold has_num. rewrite Hk. reflexivity. Qed.
  Lemma t_emit d v e : emit_val K d v e = Some (push_ev d e).
  Proof. unfold emit_val. rewrite Hk. reflexivity. Qed.
  Lemma t_handoff d : handoff K d = Some d.
  Proof. unfold handoff, builds. rewrite Hk. reflexivity. Qed.

  Lemma tfacts c v b r r' op : tcompat K c v b r r' op = true -> dfacts c b r r' = true.
  Proof. unfold tcompat. intro H. apply andb_true_iff in H. tauto. Qed.

  Lemma t_not_fast c v b r r' op d : tcompat K c v b r r' op = true -> rmode_eqb r (RNum NInt) = false ->
    d_fast d && has_num K && mode_eqb (c_mode c) M_digitMap && is_act (k_tab K (c_mode c) b) A_numDigit = false.
  Proof.
    intros HD Hn. pose proof (tfacts _ _ _ _ _ _ HD) as F. unfold dfacts in F.
    apply andb_true_iff in F as [F _]. apply andb_true_iff in F as [F _]. apply andb_true_iff in F as [F _]. apply andb_true_iff in F as [F _].
    rewrite Hn in F. apply Bool.eqb_prop in F. rewrite F.
    rewrite andb_false_r. reflexivity.
  Qed.

  Lemma ho_irrelevant (x : option data) (ho : bool) : opt_bind x (fun d => if ho then handoff K d else Some d) = x.
  Proof. destruct x as [d|]; simpl; [|reflexivity]. destruct ho; [apply t_handoff | reflexivity]. Qed.

  Ltac tk := rewrite Hk.

  Lemma top_obj_cons s : top_obj (view_of s) = true -> exists s', s = true :: s'.
  Proof. destruct s as [|[] [|y s]]; try discriminate; eexists; reflexivity. Qed.
  Lemma top_arr_cons s : top_arr (view_of s) = true -> exists s', s = false :: s'.
  Proof. destruct s as [|[] [|y s]]; try discriminate; eexists; reflexivity. Qed.

  Lemma close_event a s :
    close_kind_ok a (view_of s) = true ->
    (a = A_closeObject /\ exists s', s = true :: s') \/ (a = A_closeArray /\ exists s', s = false :: s').
  Proof.
    unfold close_kind_ok. intro H. apply orb_true_iff in H as [H|H]; apply andb_true_iff in H as [Ha Ht]; apply act_eqb_eq in Ha.
    - left. split; [exact Ha | apply top_obj_cons; exact Ht].
    - right. split; [exact Ha | apply top_arr_cons; exact Ht].
  Qed.

  Lemma RelT_noscratch r d rd revs :
    noscratch r = true -> Forall2 EvR revs (d_evs d) -> r_hi rd = None -> RelT r d rd revs.
  Proof. intros Hn A B. split; [exact A|]. split; [exact B|]. destruct r; try discriminate Hn; exact I. Qed.

  Lemma step_tok_structural c s b r r' op ho d rd revs :
    rstep one r (view_of s) b = Some (r', op) -> tcompat K c (view_of s) b r r' op = true ->
    RelT r d rd revs -> structural r = true ->
    exists d', data_step K c b ho d = Some d' /\
      RelT r' d' (rdata_step false r r' op b rd) (rev (rev_step r r' op b s rd) ++ revs).
  Proof.
    intros HRS HD (HE & Hhi & _) Hs.
    pose proof (rdata_step_hi r r' op b rd Hhi) as Hhi'.
    unfold data_step. rewrite (t_not_fast _ _ _ _ _ _ d HD) by (destruct r; try discriminate Hs; reflexivity).
    rewrite ho_irrelevant. rewrite t_has_num.
    pose proof (tfacts _ _ _ _ _ _ HD) as HF. unfold dfacts in HF. apply andb_true_iff in HF as [HF _]. rewrite Hs in HF. simpl negb in HF. simpl orb in HF.
    apply andb_true_iff in HF as [HF Hex]. apply andb_true_iff in HF as [_ Hst].
    assert (Hst' : match r' with RNum q' => match nstart b with Some (p'', _, _) => nphase_eqb p'' q' | None => false end | _ => true end = true).
    { destruct r; try discriminate Hs; exact Hst. }
    clear Hst.
    assert (HD' : match r' with
      | RStr _ => act_in (k_tab K (c_mode c) b) [A_valQuote; A_keyQuote] && sop_eqb op SNone
      | RNum NNeg => act_eqb (k_tab K (c_mode c) b) A_valNeg && sop_eqb op SNone
      | RNum NZero => act_eqb (k_tab K (c_mode c) b) A_val0 && sop_eqb op SNone
      | RNum NInt => act_eqb (k_tab K (c_mode c) b) A_valDigit && sop_eqb op SNone
      | RNum _ => false
      | RLit LNull _ => act_eqb (k_tab K (c_mode c) b) A_valNull && sop_eqb op SNone
      | RLit LTrue _ => act_eqb (k_tab K (c_mode c) b) A_valTrue && sop_eqb op SNone
      | RLit LFalse _ => act_eqb (k_tab K (c_mode c) b) A_valFalse && sop_eqb op SNone
      | _ =>
          match op with
          | SPush true => act_eqb (k_tab K (c_mode c) b) A_openObject
          | SPush false => act_eqb (k_tab K (c_mode c) b) A_openArray
          | SPop => negb (fin_is K (c_mode c) 110) && close_kind_ok (k_tab K (c_mode c) b) (view_of s)
          | SNone => act_in (k_tab K (c_mode c) b) [A_skipChar; A_skipNewline; A_colonColon; A_afterComma]
          end
      end = true).
    { unfold tcompat in HD. apply andb_true_iff in HD as [_ H]. destruct r; try discriminate Hs; exact H. }
    assert (Hev0 : forall e, rev_step r r' op b s rd = e ->
              rev_step r r' op b s rd = e) by auto.
    assert (Hrs : rev_step r r' op b s rd =
                  match op with
                  | SPush true => [EObjStart] | SPush false => [EArrStart]
                  | SPop => [match s with true :: _ => EObjEnd | _ => EArrEnd end] | SNone => [] end).
    { unfold rev_step. destruct r; try discriminate Hs; reflexivity. }
    rewrite Hrs. clear Hev0 Hrs.
    destruct r' as [| | | | | | | |k'|k'|k' n'|l' n'|q']; try discriminate Hex.
    1-8: destruct op as [|[|]|];
      [ apply act_in4 in HD'; destruct HD' as [H|[H|[H|H]]]; rewrite H;
          (eexists; split; [reflexivity|]); (apply RelT_noscratch; [reflexivity | exact HE | exact Hhi'])
      | apply act_eqb_eq in HD'; rewrite HD'; tk;
          (eexists; split; [reflexivity|]); (apply RelT_noscratch; [reflexivity | simpl; constructor; [constructor | exact HE] | exact Hhi'])
      | apply act_eqb_eq in HD'; rewrite HD'; tk;
          (eexists; split; [reflexivity|]); (apply RelT_noscratch; [reflexivity | simpl; constructor; [constructor | exact HE] | exact Hhi'])
      | apply andb_true_iff in HD' as [Hfin Hck]; apply negb_true_iff in Hfin;
          destruct (close_event _ _ Hck) as [[Ha [s' ->]]|[Ha [s' ->]]]; rewrite Ha, Hfin, andb_false_r; simpl opt_bind; tk;
          (eexists; split; [reflexivity|]); (apply RelT_noscratch; [reflexivity | simpl; constructor; [constructor | exact HE] | exact Hhi']) ].
    - (* string start *)
      apply andb_true_iff in HD' as [H Hop]. apply sop_eqb_eq in Hop. subst op.
      apply act_in2 in H. destruct H as [H|H]; rewrite H;
        (eexists; split; [reflexivity|]); (split; [exact HE|]; split; [exact Hhi'|]);
        (rewrite (rdata_step_struct _ _ _ _ _ Hs); reflexivity).
    - (* literal start *)
      destruct l'; apply andb_true_iff in HD' as [H Hop]; apply sop_eqb_eq in Hop; subst op;
        apply act_eqb_eq in H; rewrite H;
        (eexists; split; [reflexivity|]); (apply RelT_noscratch; [reflexivity | exact HE | exact Hhi']).
    - (* number start *)
      destruct (nstart b) as [[[p0 n0] f0]|] eqn:Hns; [|discriminate Hst'].
      apply nphase_eqb_eq in Hst'. subst p0. pose proof (nstart_phase _ _ _ _ Hns) as Hph.
      destruct q'; try discriminate HD'; apply andb_true_iff in HD' as [H Hop]; apply sop_eqb_eq in Hop; subst op;
        apply act_eqb_eq in H; rewrite H; destruct Hph as [-> ->];
        (eexists; split; [reflexivity|]); (split; [exact HE|]; split; [exact Hhi'|]);
        (rewrite (rdata_step_struct _ _ _ _ _ Hs); simpl; eapply NB_start; [exact Hns | left; reflexivity]).
  Qed.

  Lemma step_tok_str c s b k r' op ho d rd revs :
    rstep one (RStr k) (view_of s) b = Some (r', op) -> tcompat K c (view_of s) b (RStr k) r' op = true ->
    RelT (RStr k) d rd revs ->
    exists d', data_step K c b ho d = Some d' /\
      RelT r' d' (rdata_step false (RStr k) r' op b rd) (rev (rev_step (RStr k) r' op b s rd) ++ revs).
  Proof.
    intros HRS HD (HE & Hhi & Hscr). simpl in Hscr.
    pose proof (rdata_step_hi (RStr k) r' op b rd Hhi) as Hhi'.
    unfold data_step. rewrite (t_not_fast _ _ _ _ _ _ d HD) by reflexivity.
    rewrite ho_irrelevant. rewrite t_has_num.
    unfold tcompat in HD. apply andb_true_iff in HD as [_ HD].
    simpl in HRS. unfold rev_step. simpl is_num. simpl andb. cbv iota.
    destruct (beqb b x22) eqn:Eq.
    - apply andb_true_iff in HD as [HD Hop]. apply sop_eqb_eq in Hop. subst op.
      apply andb_true_iff in HD as [Ha Hkk]. apply act_eqb_eq in Ha. apply Bool.eqb_prop in Hkk.
      rewrite Ha. tk. rewrite Hkk. injection HRS as <-.
      destruct k; (eexists; split; [reflexivity|]);
        (apply RelT_noscratch; [first [reflexivity | apply after_value_noscratch] | | exact Hhi']);
        cbn [d_rtmp upd_fast d_evs push_ev]; rewrite Hscr; simpl; (constructor; [constructor | exact HE]).
    - destruct (beqb b x5c) eqn:Es.
      + apply andb_true_iff in HD as [Ha Hop]. apply sop_eqb_eq in Hop. subst op. apply act_eqb_eq in Ha. rewrite Ha.
        injection HRS as <-.
        eexists. split; [reflexivity|]. split; [exact HE|]. split; [exact Hhi'|].
        unfold rdata_step. simpl. rewrite Eq, Es. simpl. exact Hscr.
      + apply andb_true_iff in HD as [Ha Hop]. apply sop_eqb_eq in Hop. subst op. apply act_eqb_eq in Ha. rewrite Ha.
        destruct (b2z b <? 32); [discriminate HRS|]. injection HRS as <-.
        eexists. split; [reflexivity|]. split; [exact HE|]. split; [exact Hhi'|].
        unfold rdata_step. simpl. rewrite Eq, Es. unfold app_str. rewrite (flush_hi_none _ Hhi). simpl. rewrite Hscr. reflexivity.
  Qed.

  Lemma step_tok_esc c s b k r' op ho d rd revs :
    rstep one (REsc k) (view_of s) b = Some (r', op) -> tcompat K c (view_of s) b (REsc k) r' op = true ->
    RelT (REsc k) d rd revs ->
    exists d', data_step K c b ho d = Some d' /\
      RelT r' d' (rdata_step false (REsc k) r' op b rd) (rev (rev_step (REsc k) r' op b s rd) ++ revs).
  Proof.
    intros HRS HD (HE & Hhi & Hscr). simpl in Hscr.
    pose proof (rdata_step_hi (REsc k) r' op b rd Hhi) as Hhi'.
    unfold data_step. rewrite (t_not_fast _ _ _ _ _ _ d HD) by reflexivity.
    rewrite ho_irrelevant. rewrite t_has_num.
    unfold tcompat in HD. apply andb_true_iff in HD as [_ HD].
    apply andb_true_iff in HD as [Hop HD]. apply sop_eqb_eq in Hop. subst op.
    simpl in HRS. unfold rev_step. simpl.
    destruct (beqb b x75) eqn:Eu.
    - apply act_eqb_eq in HD. rewrite HD.
      apply beqb_eq in Eu. subst b. simpl in HRS. injection HRS as <-.
      eexists. split; [reflexivity|]. split; [exact HE|]. split; [first [exact Hhi' | reflexivity | (unfold app_str; reflexivity)]|]. simpl. auto.
    - apply andb_true_iff in HD as [Ha He]. apply act_eqb_eq in Ha. rewrite Ha.
      destruct (k_data K (c_mode c) b) as [e|] eqn:Hd; [|discriminate He]. apply beqb_eq in He. subst e.
      destruct (is_esc b); [|discriminate HRS]. injection HRS as <-.
      eexists. split; [reflexivity|]. split; [exact HE|]. split; [first [exact Hhi' | reflexivity | (unfold app_str; reflexivity)]|].
      unfold app_str. rewrite (flush_hi_none _ Hhi). simpl. rewrite Hscr. reflexivity.
  Qed.

  Lemma step_tok_hex c s b k n r' op ho d rd revs :
    rstep one (RHex k n) (view_of s) b = Some (r', op) -> tcompat K c (view_of s) b (RHex k n) r' op = true ->
    RelT (RHex k n) d rd revs ->
    exists d', data_step K c b ho d = Some d' /\
      RelT r' d' (rdata_step false (RHex k n) r' op b rd) (rev (rev_step (RHex k n) r' op b s rd) ++ revs).
  Proof.
    intros HRS HD (HE & Hhi & Hscr). simpl in Hscr. destruct Hscr as [Htmp Hrn].
    pose proof (rdata_step_hi (RHex k n) r' op b rd Hhi) as Hhi'.
    unfold data_step. rewrite (t_not_fast _ _ _ _ _ _ d HD) by reflexivity.
    rewrite ho_irrelevant. rewrite t_has_num.
    pose proof (tfacts _ _ _ _ _ _ HD) as HF. unfold dfacts in HF. apply andb_true_iff in HF as [HF _].
    apply andb_true_iff in HF as [HF _]. apply andb_true_iff in HF as [HF _]. apply andb_true_iff in HF as [_ Hri].
    apply Z.eqb_eq in Hri.
    unfold tcompat in HD. apply andb_true_iff in HD as [_ HD].
    apply andb_true_iff in HD as [Ha Hop]. apply sop_eqb_eq in Hop. subst op. apply act_eqb_eq in Ha. rewrite Ha.
    simpl in HRS. unfold rev_step. simpl.
    destruct (is_hex b); [|discriminate HRS]. injection HRS as <-.
    rewrite Hri. cbn [d_rn upd_fast d_rtmp upd_rn].
    replace (n + 1 =? 4) with (n =? 3) by (destruct (Z.eqb_spec n 3), (Z.eqb_spec (n + 1) 4); try reflexivity; lia).
    unfold rdata_step. simpl.
    destruct (n =? 3) eqn:E3.
    - eexists. split; [reflexivity|]. split; [exact HE|]. split; [unfold rdata_step in Hhi'; simpl in Hhi'; rewrite E3 in Hhi'; exact Hhi'|].
      simpl. rewrite Htmp, Hrn. reflexivity.
    - eexists. split; [reflexivity|]. split; [exact HE|]. split; [exact Hhi|]. simpl. rewrite Hrn. auto.
  Qed.

  Lemma step_tok_lit c s b l n r' op ho d rd revs :
    rstep one (RLit l n) (view_of s) b = Some (r', op) -> tcompat K c (view_of s) b (RLit l n) r' op = true ->
    RelT (RLit l n) d rd revs ->
    exists d', data_step K c b ho d = Some d' /\
      RelT r' d' (rdata_step false (RLit l n) r' op b rd) (rev (rev_step (RLit l n) r' op b s rd) ++ revs).
  Proof.
    intros HRS HD (HE & Hhi & _).
    pose proof (rdata_step_hi (RLit l n) r' op b rd Hhi) as Hhi'.
    unfold data_step. rewrite (t_not_fast _ _ _ _ _ _ d HD) by reflexivity.
    rewrite ho_irrelevant.
    pose proof (tfacts _ _ _ _ _ _ HD) as HF. unfold dfacts in HF. apply andb_true_iff in HF as [HF _].
    apply andb_true_iff in HF as [HF _]. apply andb_true_iff in HF as [HF _]. apply andb_true_iff in HF as [_ Hri].
    apply andb_true_iff in Hri as [Hri Hlen]. apply Z.eqb_eq in Hri. apply Bool.eqb_prop in Hlen.
    unfold tcompat in HD. apply andb_true_iff in HD as [_ HD].
    apply andb_true_iff in HD as [HD Hl]. apply andb_true_iff in HD as [Ha Hop]. apply sop_eqb_eq in Hop. subst op.
    apply act_eqb_eq in Ha. rewrite Ha.
    simpl in HRS. unfold rev_step. simpl is_num. simpl andb. cbv iota.
    destruct (word_at (lit_word l) n) as [ch|]; [|discriminate HRS].
    destruct (beqb ch b); [|discriminate HRS]. injection HRS as <-.
    unfold lit_probe in Hl. rewrite !t_emit.
    assert (Hcase :
        (if is_act (k_tab K (c_mode c) x72) A_tokenOk
         then if Z.of_nat (length w_true) - 1 <=? c_ri c + 1 then Some (push_ev (upd_fast d false) (EBool true)) else Some (upd_fast d false)
         else if is_act (k_tab K (c_mode c) x61) A_tokenOk
         then if Z.of_nat (length w_false) - 1 <=? c_ri c + 1 then Some (push_ev (upd_fast d false) (EBool false)) else Some (upd_fast d false)
         else if is_act (k_tab K (c_mode c) x75) A_tokenOk && is_act (k_tab K (c_mode c) x6c) A_tokenOk
         then if Z.of_nat (length w_null) - 1 <=? c_ri c + 1 then Some (push_ev (upd_fast d false) ENull) else Some (upd_fast d false)
         else Some (upd_fast d false)) =
        (if Z.of_nat (length (lit_word l)) - 1 <=? c_ri c + 1 then Some (push_ev (upd_fast d false) (lit_ev l)) else Some (upd_fast d false))).
    { destruct (is_act (k_tab K (c_mode c) x72) A_tokenOk).
      - apply lit_eqb_eq in Hl. subst l. reflexivity.
      - destruct (is_act (k_tab K (c_mode c) x61) A_tokenOk).
        + apply lit_eqb_eq in Hl. subst l. reflexivity.
        + destruct (is_act (k_tab K (c_mode c) x75) A_tokenOk && is_act (k_tab K (c_mode c) x6c) A_tokenOk); [|discriminate Hl].
          apply lit_eqb_eq in Hl. subst l. reflexivity. }
    rewrite Hcase. clear Hcase Hl.
    rewrite Hlen.
    destruct (n + 1 =? Z.of_nat (length (lit_word l))) eqn:E.
    - eexists. split; [reflexivity|]. apply RelT_noscratch; [apply after_value_noscratch | | exact Hhi'].
      simpl. constructor; [destruct l; constructor | exact HE].
    - eexists. split; [reflexivity|]. apply RelT_noscratch; [reflexivity | exact HE | exact Hhi'].
  Qed.

  Lemma step_tok_num_cont c s b p q op ho d rd revs :
    rstep one (RNum p) (view_of s) b = Some (RNum q, op) -> tcompat K c (view_of s) b (RNum p) (RNum q) op = true ->
    RelT (RNum p) d rd revs ->
    exists d', data_step K c b ho d = Some d' /\
      RelT (RNum q) d' (rdata_step false (RNum p) (RNum q) op b rd) (rev (rev_step (RNum p) (RNum q) op b s rd) ++ revs).
  Proof.
    intros HRS HD (HE & Hhi & Hscr). simpl in Hscr.
    pose proof (tfacts _ _ _ _ _ _ HD) as HF. unfold dfacts in HF. apply andb_true_iff in HF as [HF _].
    apply andb_true_iff in HF as [HF _]. apply andb_true_iff in HF as [HF Hnn]. apply andb_true_iff in HF as [Hdig _].
    apply Bool.eqb_prop in Hdig.
    destruct (nnext p b) as [q0|] eqn:Hnx; [|discriminate Hnn]. apply nphase_eqb_eq in Hnn. subst q0.
    pose proof t_has_num as Hn.
    unfold tcompat in HD. apply andb_true_iff in HD as [_ HD].
    apply andb_true_iff in HD as [Hop HD]. apply sop_eqb_eq in Hop. subst op.
    assert (Hgoal : forall d',
      data_step K c b ho d = Some d' ->
      nupd p b (d_num d) (d_fast d) = (d_num d', d_fast d') -> d_evs d' = d_evs d ->
      exists d', data_step K c b ho d = Some d' /\
        RelT (RNum q) d' (rdata_step false (RNum p) (RNum q) SNone b rd) (rev (rev_step (RNum p) (RNum q) SNone b s rd) ++ revs)).
    { intros d' Hd' Hu Hev. exists d'. split; [exact Hd'|].
      split; [unfold rev_step; simpl; rewrite Hev; exact HE|]. split; [exact Hhi|].
      simpl. eapply NB_step; [exact Hscr | exact Hnx | exact Hu | left; reflexivity]. }
    destruct p; simpl exp_act in HD; unfold nupd in Hgoal; simpl exp_act in Hgoal; simpl rmode_eqb in Hdig.
    all: repeat match type of HD with context [if ?x then _ else _] => destruct x eqn:? end.
    all: apply act_eqb_eq in HD.
    all: destruct (is_big (d_num d)) eqn:Ebig; destruct (d_fast d) eqn:Ef; destruct (fast_digit (d_num d) b) as [nf ff] eqn:Efd.
    all: eapply Hgoal; [ unfold data_step; cbv zeta; rewrite Hdig, HD, Hn, ?Ef; cbn [andb is_act action_code N.eqb Pos.eqb d_num upd_fast]; rewrite ?Ebig, ?Efd; cbn [andb]; rewrite ?ho_irrelevant; reflexivity | reflexivity | reflexivity ].
  Qed.

  Lemma step_tok_num_end c s b p r' op ho d rd revs :
    rstep one (RNum p) (view_of s) b = Some (r', op) -> tcompat K c (view_of s) b (RNum p) r' op = true ->
    RelT (RNum p) d rd revs -> is_num r' = false ->
    exists d', data_step K c b ho d = Some d' /\
      RelT r' d' (rdata_step false (RNum p) r' op b rd) (rev (rev_step (RNum p) r' op b s rd) ++ revs).
  Proof.
    intros HRS HD (HE & Hhi & Hscr) Hnn. simpl in Hscr.
    pose proof (rdata_step_hi (RNum p) r' op b rd Hhi) as Hhi'.
    pose proof (tfacts _ _ _ _ _ _ HD) as HF. unfold dfacts in HF. apply andb_true_iff in HF as [_ Hns].
    rewrite Hnn in Hns. simpl in Hns.
    pose proof t_has_num as Hn.
    assert (Hev : EvR (ENumber (rev (r_numt rd))) (num_event (d_num d))) by (eapply EvR_num; exact Hscr).
    unfold tcompat in HD. apply andb_true_iff in HD as [_ HD].
    unfold rev_step. simpl is_num. rewrite Hnn. simpl negb. simpl andb. cbv iota.
    unfold data_step. cbv zeta.
    destruct r' as [| | | | | | | |k'|k'|k' n'|l' n'|q']; try discriminate Hnn; try discriminate Hns.
    all: destruct op as [|o|]; try discriminate HD.
    all: try (apply act_in3 in HD; destruct HD as [HD|[HD|HD]]; rewrite HD;
              cbn [is_act action_code N.eqb Pos.eqb]; rewrite andb_false_r; rewrite Hn; rewrite ?ho_irrelevant;
              unfold emit_num; rewrite t_emit; cbn [d_num upd_fast opt_bind];
              (eexists; split; [reflexivity|]); (apply RelT_noscratch; [reflexivity | simpl; constructor; [exact Hev | exact HE] | exact Hhi'])).
    all: apply andb_true_iff in HD as [Hfin Hck];
      destruct (close_event _ _ Hck) as [[Ha [s' ->]]|[Ha [s' ->]]]; rewrite Ha;
      cbn [is_act action_code N.eqb Pos.eqb]; rewrite andb_false_r; rewrite Hn, Hfin; rewrite ?ho_irrelevant;
      unfold emit_num; rewrite t_emit; cbn [d_num upd_fast opt_bind andb]; tk;
      (eexists; split; [reflexivity|]); (apply RelT_noscratch; [reflexivity | simpl; constructor; [constructor | constructor; [exact Hev | exact HE]] | exact Hhi']).
  Qed.

  Lemma step_tok c s b r r' op ho d rd revs :
    rstep one r (view_of s) b = Some (r', op) -> tcompat K c (view_of s) b r r' op = true ->
    RelT r d rd revs ->
    exists d', data_step K c b ho d = Some d' /\
      RelT r' d' (rdata_step false r r' op b rd) (rev (rev_step r r' op b s rd) ++ revs).
  Proof.
    intros HRS HD HR. destruct r as [| | | | | | | |k|k|k n|l n|p];
      try (apply (step_tok_structural _ _ _ _ _ _ _ _ _ _ HRS HD HR eq_refl)).
    - apply step_tok_str; assumption.
    - apply step_tok_esc; assumption.
    - apply step_tok_hex; assumption.
    - apply step_tok_lit; assumption.
    - destruct r' as [| | | | | | | |k'|k'|k' n'|l' n'|q];
        try (apply (step_tok_num_end _ _ _ _ _ _ _ _ _ _ HRS HD HR eq_refl)).
      apply step_tok_num_cont; assumption.
  Qed.

  (* ----------------------------------------------------------- the whole machine *)

  Hypothesis Hsweep : sweep_ok one K = true.
  Hypothesis Htok : toksweep_ok K one = true.

  Lemma toksweep_cell c v b : alpha one c v <> None -> tokcell_ok K one c v b = true /\ simend_ok K one c v = true.
  Proof.
    intro A. destruct (alpha one c v) eqn:EA; [|contradiction A; reflexivity]. clear A.
    assert (Hri : (0 <=? c_ri c) && (c_ri c <=? 4) = true).
    { unfold alpha in EA. destruct ((0 <=? c_ri c) && (c_ri c <=? 4)); [reflexivity | discriminate]. }
    assert (Hnx : In (c_next c) nexts).
    { destruct (existsb (mode_eqb (c_next c)) nexts) eqn:E.
      - apply existsb_exists in E as [x [Hx Hm]]. apply mode_eqb_eq in Hm. subst x. exact Hx.
      - unfold alpha in EA. rewrite Hri, E in EA. discriminate EA. }
    pose proof Htok as H. unfold toksweep_ok in H.
    rewrite forallb_forall in H. specialize (H _ (all_modes_complete (c_mode c))).
    rewrite forallb_forall in H. specialize (H _ Hnx).
    rewrite forallb_forall in H. specialize (H _ (ri_in c Hri)).
    rewrite forallb_forall in H. specialize (H _ (all_views_complete v)).
    apply andb_true_iff in H as [He Hc].
    rewrite forallb_forall in Hc. specialize (Hc _ (all_bytes_complete b)).
    destruct c; simpl in *. auto.
  Qed.

  Lemma RelT_pos r d rd revs z : RelT r d rd revs -> RelT r (upd_pos d z) rd revs.
  Proof. intros (A & B & C). split; [exact A|]. split; [exact B|]. destruct r; exact C. Qed.

  Lemma RelT_reset r d rd revs : RelT r d rd revs -> RelT r (upd_fast d false) rd revs.
  Proof.
    intros (A & B & C). split; [exact A|]. split; [exact B|].
    destruct r; try exact C. simpl in *. eapply NB_reset. exact C.
  Qed.

  Lemma sim_step_tok c s d rd revs r b :
    alpha one c (view_of s) = Some r -> RelT r d rd revs ->
    match step K c s d b, rstep one r (view_of s) b with
    | inr (St c' s' d'), Some (r', op) =>
        s' = apply_sop op s /\ alpha one c' (view_of s') = Some r' /\
        RelT r' d' (rdata_step false r r' op b rd) (rev (rev_step r r' op b s rd) ++ revs)
    | inl (OErr _ _), None => True
    | _, _ => False
    end.
  Proof.
    intros A HR. unfold step.
    destruct (sweep_cell one K Hsweep c (view_of s) b) as [Hc _]. unfold cell_ok in Hc. rewrite A in Hc.
    destruct (toksweep_cell c (view_of s) b) as [Hs _]; [rewrite A; discriminate|].
    unfold tokcell_ok in Hs. rewrite A in Hs.
    destruct (ctl_step K c (view_of s) b) as [| |c' op ho] eqn:CS.
    - destruct (rstep one r (view_of s) b) as [[? ?]|]; [discriminate Hc | exact I].
    - destruct (rstep one r (view_of s) b) as [[? ?]|]; discriminate Hc.
    - destruct (rstep one r (view_of s) b) as [[r' op']|] eqn:RS; [|discriminate Hc].
      apply andb_true_iff in Hc as [Hc Hall]. apply andb_true_iff in Hc as [Hop Hpop].
      apply sop_eqb_eq in Hop. subst op'.
      rewrite forallb_forall in Hall.
      assert (Hin : In (view_of (apply_sop op s)) (views_after op (view_of s))).
      { apply view_after_in. destruct op; auto. destruct (view_of s); auto; discriminate. }
      specialize (Hall _ Hin).
      destruct (alpha one c' (view_of (apply_sop op s))) as [r''|] eqn:A'; [|discriminate Hall].
      apply rmode_eqb_eq in Hall. subst r''.
      destruct (step_tok c s b r r' op ho d rd revs RS Hs HR) as (d' & -> & HR').
      split; [reflexivity|]. split; [exact A'|]. apply RelT_pos. exact HR'.
  Qed.

  Lemma sim_run_tok w : forall c s d rd revs r,
    alpha one c (view_of s) = Some r -> RelT r d rd revs ->
    match run K c s d w, rerun one r s rd revs w with
    | inr (St c' s' d'), Some (r', s'', rd', revs') => s' = s'' /\ alpha one c' (view_of s') = Some r' /\ RelT r' d' rd' revs'
    | inl (OErr _ _), None => True
    | _, _ => False
    end.
  Proof.
    induction w as [|b w IH]; intros c s d rd revs r A HR; simpl.
    - auto.
    - pose proof (sim_step_tok c s d rd revs r b A HR) as H.
      destruct (step K c s d b) as [o|[c' s' d']]; destruct (rstep one r (view_of s) b) as [[r' op]|].
      + destruct o; contradiction.
      + exact H.
      + destruct H as (-> & A' & HR'). apply IH; assumption.
      + contradiction.
  Qed.

  Lemma sim_chunks_tok cs : forall c s d rd revs r,
    alpha one c (view_of s) = Some r -> RelT r d rd revs ->
    match run_chunks K c s d cs, rerun one r s rd revs (concat cs) with
    | inr (St c' s' d'), Some (r', s'', rd', revs') => s' = s'' /\ alpha one c' (view_of s') = Some r' /\ RelT r' d' rd' revs'
    | inl (OErr _ _), None => True
    | _, _ => False
    end.
  Proof.
    induction cs as [|w cs IH]; intros c s d rd revs r A HR; simpl.
    - auto.
    - rewrite rerun_app.
      pose proof (sim_run_tok w c s (upd_fast d false) rd revs r A (RelT_reset _ _ _ _ HR)) as H.
      destruct (run K c s (upd_fast d false) w) as [o|[c' s' d']];
        destruct (rerun one r s rd revs w) as [[[[r' s''] rd'] revs']|].
      + destruct o; contradiction.
      + exact H.
      + destruct H as (<- & A' & HR'). apply IH; assumption.
      + contradiction.
  Qed.

  Lemma Forall2_rev'' {A B} (P : A -> B -> Prop) l l' : Forall2 P l l' -> Forall2 P (rev l) (rev l').
  Proof.
    intro H. induction H as [|x y l l' Hxy H IH]; simpl; [constructor|].
    apply Forall2_app; [exact IH | constructor; [exact Hxy | constructor]].
  Qed.

  Theorem tok_chunks_refine cs :
    match run_all_chunks K cs with
    | OOk _ evs => exists revs, ref_events one (concat cs) = Some revs /\ Forall2 EvR revs evs
    | OErr _ _ => ref_events one (concat cs) = None
    | _ => False
    end.
  Proof.
    unfold run_all_chunks, ref_events.
    assert (HR0 : RelT RTop data_init rdata_init []) by (split; [constructor|]; split; [reflexivity | exact I]).
    pose proof (sim_chunks_tok cs ctl_init [] data_init rdata_init [] RTop eq_refl HR0) as H.
    destruct (run_chunks K ctl_init [] data_init cs) as [o|[c s d]];
      destruct (rerun one RTop [] rdata_init [] (concat cs)) as [[[[r s'] rd] revs]|].
    - destruct o; contradiction.
    - destruct o; try contradiction. reflexivity.
    - destruct H as (<- & A & HR).
      destruct (sweep_cell one K Hsweep c (view_of s) x00) as [_ He]. unfold end_ok in He. rewrite A in He.
      destruct (toksweep_cell c (view_of s) x00) as [_ Hse]; [rewrite A; discriminate|].
      unfold simend_ok in Hse. rewrite A in Hse.
      unfold finish.
      destruct (ctl_end K c (view_of s)) as [t|] eqn:E.
      + apply Bool.eqb_prop in He. rewrite <- He. apply Bool.eqb_prop in Hse. subst t.
        destruct HR as (HE & Hhi & Hscr).
        destruct (is_num r) eqn:Hn.
        * destruct r; try discriminate Hn. simpl in Hscr.
          unfold emit_num. rewrite t_emit. simpl opt_bind. rewrite t_handoff.
          eexists. split; [reflexivity|]. simpl. apply Forall2_app; [apply Forall2_rev''; exact HE|].
          constructor; [eapply EvR_num; exact Hscr | constructor].
        * eexists. split; [reflexivity|]. apply Forall2_rev''. exact HE.
      + apply Bool.eqb_prop in He. rewrite <- He. reflexivity.
    - contradiction.
  Qed.
End TSim.

(* the event stream and the document parser walk the same reference states *)
Lemma rerun_rprun one w : forall m s d evs,
  match rerun one m s d evs w, rprun one false m s d w with
  | Some (m1, s1, d1, _), Some (m2, s2, d2) => m1 = m2 /\ s1 = s2 /\ d1 = d2
  | None, None => True
  | _, _ => False
  end.
Proof.
  induction w as [|b w IH]; intros m s d evs; simpl; [auto|].
  destruct (rstep one m (view_of s) b) as [[m' op]|]; [apply IH | exact I].
Qed.

Theorem ref_events_accepts one w : ref_events one w = None <-> ref_parse one false w = None.
Proof.
  unfold ref_events, ref_parse. pose proof (rerun_rprun one w RTop [] rdata_init []) as H.
  destruct (rerun one RTop [] rdata_init [] w) as [[[[m1 s1] d1] e1]|];
    destruct (rprun one false RTop [] rdata_init w) as [[[m2 s2] d2]|]; try contradiction.
  - destruct H as (-> & -> & ->). destruct (rend m2 (view_of s2)); split; intro; try discriminate; reflexivity.
  - split; reflexivity.
Qed.
