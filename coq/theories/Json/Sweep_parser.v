(* The discharged sweeps: vm_compute over the generated tables, one file per front-end so they
   build in parallel. *)
From Coq Require Import Init.Byte NArith ZArith List Bool.
Require Import Ojg.Base.Bytes Ojg.Gen.OjMaps Ojg.Json.Machine Ojg.Json.Ref Ojg.Json.Sweep Ojg.Json.Frontends.
Lemma sweep_parser : sweep_ok true fe_parser = true. Proof. vm_compute. reflexivity. Qed.
Lemma sweep_parser_multi : sweep_ok false fe_parser_multi = true. Proof. vm_compute. reflexivity. Qed.
