(* The reference parser: Ref.v's recogniser extended with value construction in structured
   frames. This is the executable specification of what a JSON text denotes:
   - strings: every RFC 8259 escape; \uXXXX code units, a high+low surrogate pair is one code
     point, an unpaired surrogate is U+FFFD (as Go's encoding/json); other bytes verbatim
   - numbers: kept as their literal text (JBig lit); [num_ok] says which results denote it
   - objects: members in text order, a later duplicate replaces the earlier value
   - arrays: elements in text order. *)
From Coq Require Import Init.Byte NArith ZArith List Bool Lia.
Require Import Ojg.Base.Bytes Ojg.Base.Jv Ojg.Base.Utf8 Ojg.Json.Machine Ojg.Json.Ref.
Import ListNotations.
Open Scope Z_scope.

Inductive frame : Set :=
  | FArr (items : list jv)                                   (* newest first *)
  | FObj (m : list (bytes * jv)) (pending : option bytes).

Record rdata : Set := mkR {
  r_frames : list frame;
  r_str : bytes;              (* reversed *)
  r_hex : Z;
  r_hi : option Z;            (* pending high surrogate *)
  r_numt : bytes;             (* reversed literal text *)
  r_docs : list jv }.         (* newest first *)

Definition rdata_init : rdata := mkR [] [] 0 None [] [].

Definition add_value (d : rdata) (v : jv) : rdata :=
  match r_frames d with
  | [] => mkR [] (r_str d) (r_hex d) (r_hi d) (r_numt d) (v :: r_docs d)
  | FArr items :: fs => mkR (FArr (v :: items) :: fs) (r_str d) (r_hex d) (r_hi d) (r_numt d) (r_docs d)
  | FObj m (Some k) :: fs => mkR (FObj (map_set k v m) None :: fs) (r_str d) (r_hex d) (r_hi d) (r_numt d) (r_docs d)
  | FObj m None :: fs => d
  end.

Definition set_frames (d : rdata) (fs : list frame) : rdata :=
  mkR fs (r_str d) (r_hex d) (r_hi d) (r_numt d) (r_docs d).
Definition set_str (d : rdata) (s : bytes) (hi : option Z) : rdata :=
  mkR (r_frames d) s (r_hex d) hi (r_numt d) (r_docs d).
Definition set_hex (d : rdata) (h : Z) : rdata :=
  mkR (r_frames d) (r_str d) h (r_hi d) (r_numt d) (r_docs d).
Definition set_numt (d : rdata) (t : bytes) : rdata :=
  mkR (r_frames d) (r_str d) (r_hex d) (r_hi d) t (r_docs d).

Definition frame_val (f : frame) : jv :=
  match f with FArr items => JArr (rev items) | FObj m _ => JObj m end.

Definition close_top (d : rdata) : rdata :=
  match r_frames d with
  | [] => d
  | f :: fs => add_value (set_frames d fs) (frame_val f)
  end.

(* flush an unpaired high surrogate as U+FFFD *)
Definition flush_hi (d : rdata) : rdata :=
  match r_hi d with
  | Some _ => set_str d (rev (encode_rune rune_error) ++ r_str d) None
  | None => d
  end.
Definition app_str (d : rdata) (bs : bytes) : rdata :=
  let d := flush_hi d in set_str d (rev bs ++ r_str d) None.

Definition esc_byte (b : byte) : byte :=
  if beqb b x62 then x08 else if beqb b x66 then x0c else if beqb b x6e then x0a
  else if beqb b x72 then x0d else if beqb b x74 then x09 else b.

Definition is_hi (c : Z) : bool := (55296 <=? c) && (c <=? 56319).
Definition is_lo (c : Z) : bool := (56320 <=? c) && (c <=? 57343).

(* [pairs = false] is the recorded known-finding variant: every surrogate code unit becomes
   U+FFFD on its own (what the parsers do); the specification is [pairs = true]. *)
Definition code_unit (pairs : bool) (d : rdata) (cu : Z) : rdata :=
  if negb pairs then set_str d (rev (encode_rune cu) ++ r_str d) None else
  match r_hi d with
  | Some h =>
      if is_lo cu then set_str d (rev (encode_rune (65536 + (h - 55296) * 1024 + (cu - 56320))) ++ r_str d) None
      else let d := flush_hi d in
           if is_hi cu then set_str d (r_str d) (Some cu) else set_str d (rev (encode_rune cu) ++ r_str d) None
  | None =>
      if is_hi cu then set_str d (r_str d) (Some cu) else set_str d (rev (encode_rune cu) ++ r_str d) None
  end.

Definition lit_val (l : lit) : jv :=
  match l with LTrue => JBool true | LFalse => JBool false | LNull => JNull end.

Definition is_num (m : rmode) : bool := match m with RNum _ => true | _ => false end.

(* data transition for a control transition m --b--> m' with stack operation op *)
Definition rdata_step (pairs : bool) (m m' : rmode) (op : sop) (b : byte) (d : rdata) : rdata :=
  (* a number ends when control leaves the number states *)
  let d := if is_num m && negb (is_num m') then add_value (set_numt d []) (JBig (rev (r_numt d))) else d in
  let d :=
    match m with
    | RStr k =>
        if beqb b x22 then
          let d := flush_hi d in
          let s := rev (r_str d) in
          if k then
            match r_frames d with
            | FObj mm _ :: fs => set_frames d (FObj mm (Some s) :: fs)
            | _ => d
            end
          else add_value d (JStr s)
        else if beqb b x5c then d
        else app_str d [b]
    | REsc k => if beqb b x75 then set_hex d 0 else app_str d [esc_byte b]
    | RHex k n =>
        let h := r_hex d * 16 + hex_val b in
        if n =? 3 then code_unit pairs (set_hex d 0) h else set_hex d h
    | RLit l n =>
        if n + 1 =? Z.of_nat (length (lit_word l)) then add_value d (lit_val l) else d
    | RNum _ => if is_num m' then set_numt d (b :: r_numt d) else d
    | _ =>
        (* value starts *)
        match m' with
        | RStr _ => set_str d [] None
        | RNum _ => set_numt d [b]
        | _ => d
        end
    end in
  match op with
  | SPush true => set_frames d (FObj [] None :: r_frames d)
  | SPush false => set_frames d (FArr [] :: r_frames d)
  | SPop => close_top d
  | SNone => d
  end.

Section RefParse.
  Variable one : bool.
  Variable pairs : bool.

  Fixpoint rprun (m : rmode) (s : list bool) (d : rdata) (w : bytes) : option (rmode * list bool * rdata) :=
    match w with
    | [] => Some (m, s, d)
    | b :: w' =>
        match rstep one m (view_of s) b with
        | Some (m', op) => rprun m' (apply_sop op s) (rdata_step pairs m m' op b d) w'
        | None => None
        end
    end.

  (* None = rejected; Some docs = the documents of the text, oldest first *)
  Definition ref_parse (w : bytes) : option (list jv) :=
    match rprun RTop [] rdata_init w with
    | Some (m, s, d) =>
        if rend m (view_of s) then
          let d := if is_num m then add_value d (JBig (rev (r_numt d))) else d in
          Some (rev (r_docs d))
        else None
    | None => None
    end.
End RefParse.
