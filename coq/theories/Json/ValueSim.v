(* C02, structural part: the documents the table-driven machine delivers are the documents of
   the reference parser RefParse.v.

   [parse_refines]: for the front-ends that build values (Parser, gen.Parser), for EVERY input:
   the machine accepts exactly the texts the reference parser accepts, and the delivered
   documents are the reference's documents, where each number literal t is replaced by what
   the number builder makes of t ([tr]: JBig t |-> num_value K (num_of t); [num_of] folds the
   machine's own digit/fraction/exponent updates over the literal, including the scan-ahead
   loop of the first buffer). Strings (all escapes, \u code units), member order, duplicate
   keys, nesting, top-level sequences are covered exactly. The reference is taken in its
   [pairs = false] variant (a surrogate code unit becomes U+FFFD on its own): the difference to
   [pairs = true] is the recorded finding C02-surrogate-pairs.

   Method: a relation [Rel] between the machine's value stack / scratch fields and the
   reference's frames / scratch, a sweep ([simsweep_ok], over the regenerated tables) that
   fixes which action each reference transition is served by, and one lemma per kind of
   reference transition showing the concrete data step re-establishes [Rel]. *)
From Coq Require Import Init.Byte NArith ZArith List Bool Lia.
Require Import Ojg.Base.Bytes Ojg.Base.Jv Ojg.Base.Utf8 Ojg.Gen.OjMaps Ojg.Json.Number Ojg.Json.Machine Ojg.Json.Ref Ojg.Json.RefParse Ojg.Json.Sweep Ojg.Json.DataInv Ojg.Json.Frontends.
Import ListNotations.
Open Scope Z_scope.

Definition act_eqb (a b : action) : bool := is_act a b.
Definition act_in (a : action) (l : list action) : bool := existsb (act_eqb a) l.

Definition is_eE (b : byte) : bool := beqb b x65 || beqb b x45.

(* the action the number grammar implies for a byte that continues a number in phase p *)
Definition exp_act (p : nphase) (b : byte) : option action :=
  match p with
  | NNeg => if beqb b x30 then Some A_numZero else Some A_negDigit
  | NZero => if beqb b x2e then Some A_numDot else Some A_fracE
  | NInt => if is_digit b then Some A_numDigit else if beqb b x2e then Some A_numDot else Some A_fracE
  | NDot => Some A_numFrac
  | NFrac => if is_digit b then Some A_numFrac else Some A_fracE
  | NESign => if is_digit b then Some A_expDigit else Some A_expSign
  | NEZero => Some A_expDigit
  | NExp => Some A_expDigit
  end.

(* ------------------------------------------------------------------ numbers *)

Definition nnext (p : nphase) (b : byte) : option nphase :=
  match rstep true (RNum p) VEmpty b with Some (RNum p', _) => Some p' | _ => None end.

Definition nstart (b : byte) : option (nphase * num * bool) :=
  if beqb b x2d then Some (NNeg, set_neg num_reset, false)
  else if beqb b x30 then Some (NZero, num_reset, false)
  else if is_19 b then Some (NInt, set_I num_reset (digit_val b), true)
  else None.

Definition nupd (p : nphase) (b : byte) (n : num) (fast : bool) : num * bool :=
  match exp_act p b with
  | Some A_numDigit => if fast then fast_digit n b else (add_digit n b, false)
  | Some A_negDigit => (add_digit n b, false)
  | Some A_numDot | Some A_fracE => (if is_big n then push_big n b else n, false)
  | Some A_numFrac => (add_frac n b, false)
  | Some A_expSign =>
      (let n1 := if is_big n then push_big n b else n in if beqb b x2d then set_negexp n1 else n1, false)
  | Some A_expDigit => (add_exp n b, false)
  | _ => (n, false)
  end.

Fixpoint nb_cont (p : nphase) (n : num) (fast : bool) (t : bytes) : option (nphase * num * bool) :=
  match t with
  | [] => Some (p, n, fast)
  | b :: t' =>
      match nnext p b with
      | Some p' => let '(n', f') := nupd p b n fast in nb_cont p' n' f' t'
      | None => None
      end
  end.

Definition nb_run (t : bytes) : option (nphase * num * bool) :=
  match t with
  | [] => None
  | b :: t' => match nstart b with Some (p, n, f) => nb_cont p n f t' | None => None end
  end.

Definition num_of (t : bytes) : num :=
  match nb_run t with Some (_, n, _) => n | None => num_reset end.

Lemma nb_cont_snoc t : forall p n f b,
  nb_cont p n f (t ++ [b]) =
  match nb_cont p n f t with
  | Some (p1, n1, f1) =>
      match nnext p1 b with
      | Some p' => let '(n', f') := nupd p1 b n1 f1 in Some (p', n', f')
      | None => None
      end
  | None => None
  end.
Proof.
  induction t as [|x t IH]; intros p n f b; simpl.
  - destruct (nnext p b); [destruct (nupd p b n f); reflexivity | reflexivity].
  - destruct (nnext p x); [|reflexivity]. destruct (nupd p x n f). apply IH.
Qed.

Lemma nb_run_snoc t b : t <> [] ->
  nb_run (t ++ [b]) =
  match nb_run t with
  | Some (p1, n1, f1) =>
      match nnext p1 b with
      | Some p' => let '(n', f') := nupd p1 b n1 f1 in Some (p', n', f')
      | None => None
      end
  | None => None
  end.
Proof.
  destruct t as [|x t]; [intro H; contradiction H; reflexivity|]. intros _. simpl.
  destruct (nstart x) as [[[p n] f]|]; [apply nb_cont_snoc | reflexivity].
Qed.


Definition structural (r : rmode) : bool :=
  match r with RTop | RDone | RVal | RArr0 | RObj0 | RKeyReq | RColon | RAfter => true | _ => false end.
Definition noscratch (r : rmode) : bool :=
  match r with RStr _ | REsc _ | RHex _ _ | RNum _ => false | _ => true end.

Lemma nphase_eqb_eq a b : nphase_eqb a b = true -> a = b.
Proof. destruct a, b; try discriminate; reflexivity. Qed.

Section DC.
  Variable K : cfg.

  Definition lit_probe (m : mode) : option lit :=
    if is_act (k_tab K m x72) A_tokenOk then Some LTrue
    else if is_act (k_tab K m x61) A_tokenOk then Some LFalse
    else if is_act (k_tab K m x75) A_tokenOk && is_act (k_tab K m x6c) A_tokenOk then Some LNull
    else None.

  Definition dfacts (c : fctl) (b : byte) (r r' : rmode) : bool :=
    Bool.eqb (mode_eqb (c_mode c) M_digitMap) (rmode_eqb r (RNum NInt)) &&
    match r with
    | RHex _ n => c_ri c =? n
    | RLit l n => (c_ri c + 1 =? n) &&
                  Bool.eqb (Z.of_nat (length (lit_word l)) - 1 <=? c_ri c + 1) (n + 1 =? Z.of_nat (length (lit_word l)))
    | _ => true
    end &&
    match r, r' with
    | RNum p, RNum p' => match nnext p b with Some p'' => nphase_eqb p'' p' | None => false end
    | _, RNum p' => match nstart b with Some (p'', _, _) => nphase_eqb p'' p' | None => false end
    | _, _ => true
    end &&
    (negb (structural r) || match r' with REsc _ | RHex _ _ => false | _ => true end) &&
    (negb (is_num r) || is_num r' || noscratch r').

  Definition dcompat (c : fctl) (b : byte) (r r' : rmode) (op : sop) : bool :=
    let m := c_mode c in
    let a := k_tab K m b in
    dfacts c b r r' &&
    match r with
    | RStr k =>
        if beqb b x22 then act_eqb a A_strQuote && Bool.eqb (is_act (k_tab K (c_next c) x3a) A_colonColon) k
        else if beqb b x5c then act_eqb a A_strSlash
        else act_eqb a A_strOk
    | REsc k =>
        if beqb b x75 then act_eqb a A_escU
        else act_eqb a A_escOk && match k_data K m b with Some e => beqb e (esc_byte b) | None => false end
    | RHex k n => act_eqb a A_uOk
    | RLit l n => act_eqb a A_tokenOk && match lit_probe m with Some l' => lit_eqb l l' | None => false end
    | RNum p =>
        match r' with
        | RNum p' => match exp_act p b with Some e => act_eqb a e | None => false end
        | _ =>
            match op with
            | SNone => act_in a [A_numSpc; A_numNewline; A_numComma]
            | SPop => act_in a [A_closeArray; A_closeObject] && fin_is K m 110
            | _ => false
            end
        end
    | _ =>
        match r' with
        | RStr _ => act_in a [A_valQuote; A_keyQuote]
        | RNum NNeg => act_eqb a A_valNeg
        | RNum NZero => act_eqb a A_val0
        | RNum NInt => act_eqb a A_valDigit
        | RNum _ => false
        | RLit LNull _ => act_eqb a A_valNull
        | RLit LTrue _ => act_eqb a A_valTrue
        | RLit LFalse _ => act_eqb a A_valFalse
        | _ =>
            match op with
            | SPush true => act_eqb a A_openObject
            | SPush false => act_eqb a A_openArray
            | SPop => act_in a [A_closeArray; A_closeObject] && negb (fin_is K m 110)
            | SNone => act_in a [A_skipChar; A_skipNewline; A_colonColon; A_afterComma]
            end
        end
    end.

  Definition simcell_ok (one : bool) (c : fctl) (v : view) (b : byte) : bool :=
    match alpha one c v with
    | None => true
    | Some r =>
        match ctl_step K c v b, rstep one r v b with
        | COk c' op _, Some (r', _) => dcompat c b r r' op
        | _, _ => true
        end
    end.

  Definition simend_ok (one : bool) (c : fctl) (v : view) : bool :=
    match alpha one c v, ctl_end K c v with
    | Some r, Some t => Bool.eqb t (is_num r)
    | _, _ => true
    end.

  Definition simsweep_ok (one : bool) : bool :=
    forallb (fun m => forallb (fun nx => forallb (fun ri => forallb (fun v =>
      simend_ok one (mkCtl m nx ri) v &&
      forallb (fun b => simcell_ok one (mkCtl m nx ri) v b) all_bytes) all_views) all_ris) nexts) all_modes.
End DC.


(* ------------------------------------------------------------- value relation *)

Section Tr.
  Variable K : cfg.

  Fixpoint tr (v : jv) : jv :=
    match v with
    | JBig t => num_value K (num_of t)
    | JArr l => JArr (map tr l)
    | JObj m => JObj (map (fun kv => (fst kv, tr (snd kv))) m)
    | _ => v
    end.
  Definition trm (m : list (bytes * jv)) : list (bytes * jv) := map (fun kv => (fst kv, tr (snd kv))) m.
  Definition sv (v : jv) : sitem := SVal (tr v).

  Lemma trm_set k v m : map_set k (tr v) (trm m) = trm (map_set k v m).
  Proof.
    induction m as [|[k' v'] m IH]; simpl; [reflexivity|].
    destruct (bytes_eqb k k'); simpl; [reflexivity | rewrite IH; reflexivity].
  Qed.

  (* value stack against the reference frames (both top first); the boolean: a key is pending *)
  Inductive SR : list bool -> bool -> list sitem -> list Z -> list frame -> Prop :=
    | SR_top : SR [] false [] [] []
    | SR_obj s m rest starts fs :
        SR s (parent_pend s) rest starts fs ->
        SR (true :: s) false (SMap (trm m) :: rest) (-1 :: starts) (FObj m None :: fs)
    | SR_objk s m k rest starts fs :
        SR s (parent_pend s) rest starts fs ->
        SR (true :: s) true (SKey k :: SMap (trm m) :: rest) (-1 :: starts) (FObj m (Some k) :: fs)
    | SR_arr s items rest starts fs :
        SR s (parent_pend s) rest starts fs ->
        SR (false :: s) false (map sv items ++ SMark :: rest)
           (Z.of_nat (length rest) :: starts) (FArr items :: fs).

  Lemma SR_nil p stk st fs : SR [] p stk st fs -> stk = [] /\ st = [] /\ fs = [] /\ p = false.
  Proof. intro H. inversion H. auto. Qed.

  (* the reference's add_value on the frame list *)
  Definition fs_add (fs : list frame) (v : jv) : list frame :=
    match fs with
    | FArr items :: fs' => FArr (v :: items) :: fs'
    | FObj m (Some k) :: fs' => FObj (map_set k v m) None :: fs'
    | _ => fs
    end.

  Lemma add_value_frames rd v :
    r_frames rd <> [] -> add_value rd v = set_frames rd (fs_add (r_frames rd) v).
  Proof.
    destruct rd as [fs st hx hi nt docs]. simpl. intro H.
    destruct fs as [|[items|m [k|]] fs]; [contradiction H; reflexivity | reflexivity | reflexivity | reflexivity].
  Qed.

  Lemma add_sim s pend stk st fs v p' et :
    SR s pend stk st fs -> a_emit (view_of s) pend = Some (p', et) ->
    exists stk', add stk (tr v) = Some stk' /\
      (if et then s = [] /\ stk' = [SVal (tr v)] /\ st = [] /\ fs = []
       else s <> [] /\ SR s p' stk' st (fs_add fs v)).
  Proof.
    intros HF HA. destruct HF as [|s m rest starts fs HF|s m k rest starts fs HF|s items rest starts fs HF].
    - simpl in HA. inversion HA; subst. exists [SVal (tr v)]. split; [reflexivity|]. auto.
    - unfold a_emit in HA. rewrite view_top_true in HA. discriminate HA.
    - unfold a_emit in HA. rewrite view_top_true in HA. inversion HA; subst.
      exists (SMap (map_set k (tr v) (trm m)) :: rest). split; [reflexivity|]. split; [discriminate|].
      simpl. rewrite trm_set. constructor. exact HF.
    - unfold a_emit in HA. rewrite view_top_false in HA. inversion HA; subst.
      exists (SVal (tr v) :: map sv items ++ SMark :: rest). split.
      + apply add_not_key. destruct items as [|x items]; simpl; exact I.
      + split; [discriminate|]. simpl.
        change (SVal (tr v) :: map sv items ++ SMark :: rest) with (map sv (v :: items) ++ SMark :: rest).
        constructor. exact HF.
  Qed.

  Lemma add_parent_sim s rest st fs v :
    SR s (parent_pend s) rest st fs ->
    exists stk', add rest (tr v) = Some stk' /\
      match s with
      | [] => stk' = [SVal (tr v)] /\ st = [] /\ fs = []
      | _ => SR s false stk' st (fs_add fs v)
      end.
  Proof.
    intro HF. destruct (add_sim s _ rest st fs v _ _ HF (parent_emit s)) as (stk' & Ha & Hr).
    exists stk'. split; [exact Ha|]. destruct s; [tauto | apply Hr].
  Qed.
End Tr.

(* ---------------------------------------------------------------- the simulation *)

Section Sim.
  Variable one : bool.
  Variable K : cfg.
  Hypothesis Hb : builds K = true.

  Notation trK := (tr K).
  Notation SRK := (SR K).

  Definition scratch_rel (r : rmode) (d : data) (rd : rdata) : Prop :=
    match r with
    | RStr _ | REsc _ => d_rtmp d = r_str rd
    | RHex _ _ => d_rtmp d = r_str rd /\ d_rn d = r_hex rd
    | RNum p => nb_run (rev (r_numt rd)) = Some (p, d_num d, d_fast d)
    | _ => True
    end.

  Definition Rel (r : rmode) (s : list bool) (d : data) (rd : rdata) : Prop :=
    SRK s (pend_of r (view_of s)) (d_stack d) (d_starts d) (r_frames rd) /\
    d_docs d = map trK (r_docs rd) /\ r_hi rd = None /\ scratch_rel r d rd.

  (* what a delivered value does to the frames and the documents, on both sides *)
  Definition VRel (s : list bool) (p : bool) (d : data) (rd : rdata) : Prop :=
    SRK s p (d_stack d) (d_starts d) (r_frames rd) /\ d_docs d = map trK (r_docs rd) /\ r_hi rd = None.

  Lemma add_value_hi rd v : r_hi (add_value rd v) = r_hi rd.
  Proof. destruct rd as [fs st hx hi nt docs]. destruct fs as [|[items|m [k|]] fs]; reflexivity. Qed.

  Lemma add_value_top rd v : r_frames rd = [] -> r_frames (add_value rd v) = [] /\ r_docs (add_value rd v) = v :: r_docs rd.
  Proof. destruct rd as [fs st hx hi nt docs]. simpl. intros ->. auto. Qed.

  Lemma add_value_docs rd v : r_frames rd <> [] -> r_docs (add_value rd v) = r_docs rd.
  Proof. intro H. rewrite add_value_frames by exact H. reflexivity. Qed.

  Lemma emit_sim s pend d rd v e p' et :
    VRel s pend d rd -> a_emit (view_of s) pend = Some (p', et) ->
    exists d', post_ho K et (emit_val K d (trK v) e) = Some d' /\ VRel s p' d' (add_value rd v).
  Proof.
    intros (HF & Hdocs & Hhi) HA.
    destruct (add_sim K s pend _ _ _ v p' et HF HA) as (stk' & Hadd & Hr).
    rewrite (emit_val_b K Hb), Hadd. unfold post_ho. simpl.
    destruct et.
    - destruct Hr as (-> & -> & Hst & Hfs).
      rewrite (handoff_b K Hb). simpl. eexists. split; [reflexivity|].
      destruct (add_value_top rd v Hfs) as [F1 F2].
      unfold VRel. simpl. rewrite F1, F2, Hst, add_value_hi. simpl. rewrite Hdocs.
      pose proof (a_emit_fst _ _ _ _ HA) as ->. repeat split; [constructor | exact Hhi].
    - destruct Hr as (Hne & Hr). eexists. split; [reflexivity|].
      assert (Hfne : r_frames rd <> []).
      { intro E. rewrite E in HF. inversion HF; subst. apply Hne. reflexivity. }
      unfold VRel. simpl. rewrite add_value_hi, (add_value_docs rd v Hfne), (add_value_frames rd v Hfne).
      simpl. auto.
  Qed.

  Lemma close_post_sim s o d rd val rest st fs :
    SRK s (parent_pend s) rest st fs -> d_docs d = map trK (r_docs rd) -> r_hi rd = None ->
    exists d', post_ho K (match s with [] => true | _ => false end)
                 (match add rest (trK val) with
                  | Some stk => Some (upd_stacks d stk st)
                  | None => None end) = Some d' /\
               VRel (apply_sop SPop (o :: s)) false d' (add_value (set_frames rd fs) val).
  Proof.
    intros HF Hdocs Hhi. destruct (add_parent_sim K s rest st fs val HF) as (stk' & Ha & Hr). rewrite Ha.
    destruct s as [|x s].
    - destruct Hr as (-> & -> & ->). unfold post_ho, opt_bind. rewrite (handoff_b K Hb). simpl.
      eexists. split; [reflexivity|]. unfold VRel. simpl.
      destruct rd as [fs0 st0 hx hi nt docs]. simpl in *. rewrite Hdocs. repeat split; [constructor | exact Hhi].
    - unfold post_ho, opt_bind. eexists. split; [reflexivity|]. unfold VRel. simpl.
      assert (Hfne : fs <> []). { intro E. subst fs. inversion HF. }
      rewrite add_value_hi.
      rewrite (add_value_frames (set_frames rd fs) val) by exact Hfne.
      destruct rd as [fs0 st0 hx hi nt docs]. simpl in *. auto.
  Qed.

  Lemma close_obj_sim s' d rd :
    VRel (true :: s') false d rd ->
    exists d', post_ho K (match s' with [] => true | _ => false end)
      (match d_stack d with
       | [] => None
       | top :: rest =>
           match add rest (item_val top) with
           | Some s => Some (upd_stacks d s (tl (d_starts d)))
           | None => None
           end
       end) = Some d' /\ VRel s' false d' (close_top rd).
  Proof.
    intros (HF & Hdocs & Hhi).
    inversion HF as [|s0 m rest starts fs HFp| |]; subst.
    simpl tl. unfold close_top.
    match goal with H : _ = r_frames rd |- _ => rewrite <- H end.
    change (item_val (SMap (trm K m))) with (trK (JObj m)).
    apply (close_post_sim s' true d rd (JObj m) rest starts fs HFp Hdocs Hhi).
  Qed.

  Lemma map_item_val_sv items : map item_val (map (sv K) items) = map trK items.
  Proof. induction items as [|x l IH]; simpl; [reflexivity | rewrite IH; reflexivity]. Qed.

  Lemma close_arr_sim s' d rd :
    VRel (false :: s') false d rd ->
    exists d', post_ho K (match s' with [] => true | _ => false end)
      (match d_starts d with
       | [] => None
       | st :: starts' =>
           let start := st + 1 in
           let len := Z.of_nat (length (d_stack d)) in
           let size := len - start in
           if (size <? 0) || (start - 1 <? 0) then None
           else
             let elems := rev (firstn (Z.to_nat size) (d_stack d)) in
             let rest := skipn (Z.to_nat size + 1) (d_stack d) in
             match add rest (JArr (map item_val elems)) with
             | Some s => Some (upd_stacks d s starts')
             | None => None
             end
       end) = Some d' /\ VRel s' false d' (close_top rd).
  Proof.
    intros (HF & Hdocs & Hhi).
    inversion HF as [| | |s0 items rest starts fs HFp]; subst.
    cbv zeta.
    set (vals := map (sv K) items).
    assert (Hlen : Z.of_nat (length (vals ++ SMark :: rest)) - (Z.of_nat (length rest) + 1) = Z.of_nat (length vals)).
    { rewrite app_length. simpl length. lia. }
    rewrite Hlen.
    assert (Hc : (Z.of_nat (length vals) <? 0) || (Z.of_nat (length rest) + 1 - 1 <? 0) = false).
    { apply orb_false_iff. split; apply Z.ltb_ge; lia. }
    rewrite Hc. rewrite Nat2Z.id.
    rewrite firstn_app_exact.
    replace (length vals + 1)%nat with (length (vals ++ [SMark])) by (rewrite app_length; reflexivity).
    replace (vals ++ SMark :: rest) with ((vals ++ [SMark]) ++ rest) by (rewrite <- app_assoc; reflexivity).
    rewrite skipn_app_exact.
    unfold close_top.
    match goal with H : _ = r_frames rd |- _ => rewrite <- H end.
    assert (Hv : JArr (map item_val (rev vals)) = trK (frame_val (FArr items))).
    { unfold vals. simpl. rewrite <- map_rev, map_item_val_sv. rewrite map_rev. reflexivity. }
    rewrite Hv.
    apply (close_post_sim s' false d rd (frame_val (FArr items)) rest starts fs HFp Hdocs Hhi).
  Qed.

  (* ------------------------------------------------------------ one byte *)

  Lemma flush_hi_none rd : r_hi rd = None -> flush_hi rd = rd.
  Proof. unfold flush_hi. intros ->. reflexivity. Qed.

  Lemma act_eqb_eq a e : act_eqb a e = true -> a = e.
  Proof. apply is_act_eq. Qed.

  Lemma VRel_of r s d rd : Rel r s d rd -> VRel s (pend_of r (view_of s)) d rd.
  Proof. intros (A & B & C & _). repeat split; assumption. Qed.


  Lemma Rel_noscratch r s p d rd : noscratch r = true -> pend_of r (view_of s) = p -> VRel s p d rd -> Rel r s d rd.
  Proof.
    intros Hn <- (A & B & C). repeat split; try assumption. destruct r; try discriminate Hn; exact I.
  Qed.

  Lemma same_inv op (pend p' ho : bool) :
    (if sop_eqb op SNone then Some (pend, false) else None) = Some (p', ho) -> op = SNone /\ p' = pend /\ ho = false.
  Proof.
    destruct (sop_eqb op SNone) eqn:E; [|discriminate]. apply sop_eqb_eq in E. intro H. inversion H. auto.
  Qed.

  Lemma act_in2 a x y : act_in a [x; y] = true -> a = x \/ a = y.
  Proof.
    unfold act_in. simpl. rewrite orb_false_r. intro H. apply orb_true_iff in H as [H|H]; apply act_eqb_eq in H; auto.
  Qed.
  Lemma act_in3 a x y z : act_in a [x; y; z] = true -> a = x \/ a = y \/ a = z.
  Proof.
    unfold act_in. simpl. rewrite orb_false_r. intro H. apply orb_true_iff in H as [H|H]; [apply act_eqb_eq in H; auto|].
    apply orb_true_iff in H as [H|H]; apply act_eqb_eq in H; auto.
  Qed.
  Lemma act_in4 a x y z w : act_in a [x; y; z; w] = true -> a = x \/ a = y \/ a = z \/ a = w.
  Proof.
    unfold act_in. simpl. rewrite orb_false_r. intro H. apply orb_true_iff in H as [H|H]; [apply act_eqb_eq in H; auto|].
    apply orb_true_iff in H as [H|H]; [apply act_eqb_eq in H; auto|].
    apply orb_true_iff in H as [H|H]; apply act_eqb_eq in H; auto.
  Qed.

  Definition apply_op (o : sop) (x : rdata) : rdata :=
    match o with
    | SPush true => set_frames x (FObj [] None :: r_frames x)
    | SPush false => set_frames x (FArr [] :: r_frames x)
    | SPop => close_top x
    | SNone => x
    end.

  Lemma rdata_step_struct r r' op b rd : structural r = true ->
    rdata_step false r r' op b rd =
    apply_op op (match r' with RStr _ => set_str rd [] None | RNum _ => set_numt rd [b] | _ => rd end).
  Proof. intro Hs. destruct r; try discriminate Hs; reflexivity. Qed.

  Lemma open_sim s pend stk st fs :
    SRK s pend stk st fs -> a_open (view_of s) pend = true -> SRK s (parent_pend s) stk st fs.
  Proof.
    intros HF HA. destruct HF as [|s0 m0 rest starts fs HF|s0 m0 k rest starts fs HF|s0 items rest starts fs HF].
    - constructor.
    - unfold a_open in HA. rewrite view_top_true in HA. discriminate HA.
    - simpl. constructor. exact HF.
    - simpl. constructor; assumption.
  Qed.

  Definition StepHyps c s b r r' op ho p' d rd : Prop :=
    rstep one r (view_of s) b = Some (r', op) /\
    dcompat K c b r r' op = true /\
    adata_build K c (view_of s) b op (pend_of r (view_of s)) = Some (p', ho) /\
    pend_of r' (view_of (apply_sop op s)) = p' /\
    Rel r s d rd.

  Lemma not_fast c b r r' op d : dcompat K c b r r' op = true -> rmode_eqb r (RNum NInt) = false ->
    d_fast d && has_num K && mode_eqb (c_mode c) M_digitMap && is_act (k_tab K (c_mode c) b) A_numDigit = false.
  Proof.
    intros HD Hn. unfold dcompat in HD. apply andb_true_iff in HD as [F _]. unfold dfacts in F.
    apply andb_true_iff in F as [F _]. apply andb_true_iff in F as [F _]. apply andb_true_iff in F as [F _]. apply andb_true_iff in F as [F _].
    rewrite Hn in F. apply Bool.eqb_prop in F. rewrite F.
    rewrite andb_false_r. reflexivity.
  Qed.

  Lemma HD_struct c b r r' op : dcompat K c b r r' op = true -> structural r = true ->
    let m := c_mode c in let a := k_tab K m b in
    match r' with
    | RStr _ => act_in a [A_valQuote; A_keyQuote]
    | RNum NNeg => act_eqb a A_valNeg
    | RNum NZero => act_eqb a A_val0
    | RNum NInt => act_eqb a A_valDigit
    | RNum _ => false
    | RLit LNull _ => act_eqb a A_valNull
    | RLit LTrue _ => act_eqb a A_valTrue
    | RLit LFalse _ => act_eqb a A_valFalse
    | _ =>
        match op with
        | SPush true => act_eqb a A_openObject
        | SPush false => act_eqb a A_openArray
        | SPop => act_in a [A_closeArray; A_closeObject] && negb (fin_is K m 110)
        | SNone => act_in a [A_skipChar; A_skipNewline; A_colonColon; A_afterComma]
        end
    end = true.
  Proof.
    intros HD Hs. unfold dcompat in HD. apply andb_true_iff in HD as [_ H].
    destruct r; try discriminate Hs; exact H.
  Qed.

  Ltac kinds := unfold builds in Hb; destruct (k_kind K); try discriminate Hb.

  Lemma step_op_noscratch c s b r r' op ho p' d rd :
    StepHyps c s b r r' op ho p' d rd -> structural r = true -> noscratch r' = true ->
    match op with
    | SPush true => act_eqb (k_tab K (c_mode c) b) A_openObject
    | SPush false => act_eqb (k_tab K (c_mode c) b) A_openArray
    | SPop => act_in (k_tab K (c_mode c) b) [A_closeArray; A_closeObject] && negb (fin_is K (c_mode c) 110)
    | SNone => act_in (k_tab K (c_mode c) b) [A_skipChar; A_skipNewline; A_colonColon; A_afterComma]
    end = true ->
    exists d', data_step K c b ho d = Some d' /\ Rel r' (apply_sop op s) d' (apply_op op rd).
  Proof.
    intros (HRS & HD & HB & HP & HR) Hs Hns H.
    unfold data_step. rewrite (not_fast _ _ _ _ _ d HD) by (destruct r; try discriminate Hs; reflexivity).
    pose proof (b_has_num K Hb) as Hn.
    pose proof (VRel_of _ _ _ _ HR) as HV.
    unfold adata_build in HB.
    set (a := k_tab K (c_mode c) b) in *.
    fold (post_ho K ho).
    destruct op as [|[|]|].
    - (* SNone *)
      apply act_in4 in H. destruct H as [H|[H|[H|H]]]; rewrite H in *;
        simpl in HB; injection HB as E1 E2; rewrite <- E2; rewrite <- E1 in HP;
        (eexists; split; [reflexivity|]); simpl apply_sop in *; simpl apply_op;
        (apply (Rel_noscratch _ _ _ _ _ Hns HP)); exact HV.
    - (* open object *)
      apply act_eqb_eq in H. rewrite H in *. simpl in HB.
      destruct (a_open (view_of s) (pend_of r (view_of s))) eqn:Ho; [|discriminate HB].
      injection HB as E1 E2; rewrite <- E1 in HP; rewrite <- E2.
      destruct HV as (HSR & Hdocs & Hhi).
      pose proof (open_sim _ _ _ _ _ HSR Ho) as HFp.
      kinds; (eexists; split; [reflexivity|]); simpl apply_op;
        (apply (Rel_noscratch _ _ _ _ _ Hns HP)); (repeat split; [|assumption|assumption]);
        simpl; apply (SR_obj K s [] _ _ _ HFp).
    - (* open array *)
      apply act_eqb_eq in H. rewrite H in *. simpl in HB.
      destruct (a_open (view_of s) (pend_of r (view_of s))) eqn:Ho; [|discriminate HB].
      injection HB as E1 E2; rewrite <- E1 in HP; rewrite <- E2.
      destruct HV as (HSR & Hdocs & Hhi).
      pose proof (open_sim _ _ _ _ _ HSR Ho) as HFp.
      kinds; (eexists; split; [reflexivity|]); simpl apply_op;
        (apply (Rel_noscratch _ _ _ _ _ Hns HP)); (repeat split; [|assumption|assumption]);
        simpl; apply (SR_arr K s [] _ _ _ HFp).
    - (* close *)
      apply andb_true_iff in H as [H Hfin]. apply negb_true_iff in Hfin.
      apply act_in2 in H. destruct H as [H|H]; rewrite H in *; simpl in HB;
        destruct (a_close_inv K _ _ _ _ _ _ HB) as (s' & -> & -> & -> & Hpre);
        rewrite Hfin, andb_false_r in Hpre; rewrite Hfin, andb_false_r; simpl opt_bind;
        rewrite Hpre in HV; simpl apply_op.
      + destruct (close_arr_sim s' (upd_fast d false) rd HV) as (d' & Hd' & HV').
        kinds; (exists d'; split; [exact Hd'|]); apply (Rel_noscratch _ _ _ _ _ Hns HP); exact HV'.
      + destruct (close_obj_sim s' (upd_fast d false) rd HV) as (d' & Hd' & HV').
        kinds; (exists d'; split; [exact Hd'|]); apply (Rel_noscratch _ _ _ _ _ Hns HP); exact HV'.
  Qed.

  Lemma nstart_phase b p n f : nstart b = Some (p, n, f) ->
    match p with
    | NNeg => n = set_neg num_reset /\ f = false
    | NZero => n = num_reset /\ f = false
    | NInt => n = set_I num_reset (digit_val b) /\ f = true
    | _ => False
    end.
  Proof.
    unfold nstart. destruct (beqb b x2d); [intro H; inversion H; auto|].
    destruct (beqb b x30); [intro H; inversion H; auto|].
    destruct (is_19 b); [intro H; inversion H; auto | discriminate].
  Qed.

  Lemma dfacts_of c b r r' op : dcompat K c b r r' op = true -> dfacts c b r r' = true.
  Proof. unfold dcompat. intro H. apply andb_true_iff in H. tauto. Qed.

  Lemma step_structural c s b r r' op ho p' d rd :
    StepHyps c s b r r' op ho p' d rd -> structural r = true ->
    exists d', data_step K c b ho d = Some d' /\ Rel r' (apply_sop op s) d' (rdata_step false r r' op b rd).
  Proof.
    intros HS Hs. pose proof HS as (HRS & HD & HB & HP & HR).
    rewrite (rdata_step_struct _ _ _ _ _ Hs).
    pose proof (HD_struct _ _ _ _ _ HD Hs) as H. cbv zeta in H.
    pose proof (dfacts_of _ _ _ _ _ HD) as HF. unfold dfacts in HF. apply andb_true_iff in HF as [HF _]. rewrite Hs in HF. simpl negb in HF. simpl orb in HF.
    apply andb_true_iff in HF as [HF Hex]. apply andb_true_iff in HF as [_ Hst].
    assert (Hst' : match r' with RNum q' => match nstart b with Some (p'', _, _) => nphase_eqb p'' q' | None => false end | _ => true end = true).
    { destruct r; try discriminate Hs; exact Hst. }
    clear Hst.
    destruct r' as [| | | | | | | |k'|k'|k' n'|l' n'|q'];
      try (apply (step_op_noscratch _ _ _ _ _ _ _ _ _ _ HS Hs eq_refl H)); try discriminate Hex.
    - (* string start *)
      unfold data_step. rewrite (not_fast _ _ _ _ _ d HD) by (destruct r; try discriminate Hs; reflexivity).
      pose proof HR as (HSR & Hdocs & Hhi & _). unfold adata_build in HB.
      apply act_in2 in H. destruct H as [H|H]; rewrite H in *;
        apply same_inv in HB as (-> & E1 & ->); rewrite E1 in HP;
        (eexists; split; [reflexivity|]); simpl in HP |- *; unfold Rel; rewrite HP; simpl; repeat split; assumption.
    - (* literal start *)
      unfold data_step. rewrite (not_fast _ _ _ _ _ d HD) by (destruct r; try discriminate Hs; reflexivity).
      pose proof (VRel_of _ _ _ _ HR) as HV. unfold adata_build in HB.
      destruct l'; apply act_eqb_eq in H; rewrite H in *;
        apply same_inv in HB as (-> & E1 & ->); rewrite E1 in HP;
        (eexists; split; [reflexivity|]); simpl apply_sop in *; simpl apply_op;
        (refine (Rel_noscratch _ _ _ _ _ _ HP _); [reflexivity | exact HV]).
    - (* number start *)
      unfold data_step. rewrite (not_fast _ _ _ _ _ d HD) by (destruct r; try discriminate Hs; reflexivity).
      pose proof HR as (HSR & Hdocs & Hhi & _). unfold adata_build in HB.
      rewrite (b_has_num K Hb).
      destruct (nstart b) as [[[p0 n0] f0]|] eqn:Hns; [|discriminate Hst'].
      apply nphase_eqb_eq in Hst'. subst p0. pose proof (nstart_phase _ _ _ _ Hns) as Hph.
      destruct q'; try discriminate H; apply act_eqb_eq in H; rewrite H in *;
        apply same_inv in HB as (-> & E1 & ->); rewrite E1 in HP; destruct Hph as [-> ->];
        (eexists; split; [reflexivity|]); simpl in HP |- *; unfold Rel; rewrite HP; simpl; repeat split; try assumption;
        rewrite Hns; reflexivity.
  Qed.

  Lemma after_value_noscratch o v : noscratch (after_value one o v) = true.
  Proof. unfold after_value. destruct (empty_after o v); [destruct one|]; reflexivity. Qed.

  Lemma step_str c s b k r' op ho p' d rd :
    StepHyps c s b (RStr k) r' op ho p' d rd ->
    exists d', data_step K c b ho d = Some d' /\ Rel r' (apply_sop op s) d' (rdata_step false (RStr k) r' op b rd).
  Proof.
    intros (HRS & HD & HB & HP & HR).
    unfold data_step. rewrite (not_fast _ _ _ _ _ d HD) by reflexivity.
    pose proof HR as (HSR & Hdocs & Hhi & Hscr). simpl in Hscr.
    unfold adata_build in HB. rewrite (b_has_num K Hb).
    unfold dcompat in HD. apply andb_true_iff in HD as [_ HD].
    fold (post_ho K ho).
    simpl in HRS. unfold rdata_step. simpl is_num. simpl andb. cbv iota.
    destruct (beqb b x22) eqn:Eq.
    - (* closing quote *)
      apply andb_true_iff in HD as [Ha Hk]. apply act_eqb_eq in Ha. apply Bool.eqb_prop in Hk.
      rewrite Ha in *. rewrite Hk in *. rewrite (flush_hi_none _ Hhi).
      injection HRS as <- <-.
      destruct (sop_eqb SNone SNone) eqn:E0; [|discriminate E0]. clear E0.
      destruct k.
      + (* key *)
        destruct (top_obj (view_of s) && negb (pend_of (RStr true) (view_of s))) eqn:Hc; [|discriminate HB].
        injection HB as E1 E2. rewrite <- E2. rewrite <- E1 in HP.
        apply andb_true_iff in Hc as [Ht Hp]. apply negb_true_iff in Hp. rewrite Hp in HSR.
        inversion HSR as [|s0 m0 rest starts fs HFp Es Est Esk Efs| |]; subst.
        * discriminate Ht.
        * kinds; (eexists; split; [reflexivity|]); simpl apply_sop in *;
            (refine (Rel_noscratch _ _ _ _ _ _ HP _); [reflexivity|]);
            unfold VRel; simpl;
            rewrite <- Esk, <- Efs;
            rewrite Hscr; (repeat split; [|assumption|assumption]); constructor; exact HFp.
        * unfold top_obj in Ht. rewrite view_top_false in Ht. discriminate Ht.
      + (* string value *)
        cbn [d_rtmp upd_fast]. rewrite Hscr.
        pose proof (emit_sim s _ (upd_fast d false) rd (JStr (rev (r_str rd))) ENull p' ho (VRel_of _ _ _ _ HR) HB) as (d' & Hd' & HV').
        simpl trK in Hd'.
        kinds; (exists d'; split; [exact Hd'|]); simpl apply_sop in *;
          (refine (Rel_noscratch _ _ _ _ _ _ HP HV'); apply after_value_noscratch).
    - destruct (beqb b x5c) eqn:Es.
      + (* backslash *)
        apply act_eqb_eq in HD. rewrite HD in *. injection HRS as <- <-.
        apply same_inv in HB as (_ & E1 & ->). rewrite E1 in HP.
        eexists. split; [reflexivity|]. simpl in HP |- *. unfold Rel. rewrite HP. simpl. repeat split; assumption.
      + (* ordinary byte *)
        apply act_eqb_eq in HD. rewrite HD in *.
        destruct (b2z b <? 32); [discriminate HRS|]. injection HRS as <- <-.
        apply same_inv in HB as (_ & E1 & ->). rewrite E1 in HP.
        eexists. split; [reflexivity|]. simpl in HP |- *. unfold Rel.
        unfold app_str. rewrite (flush_hi_none _ Hhi). simpl. rewrite Hscr. repeat split; assumption.
  Qed.

  Lemma step_esc c s b k r' op ho p' d rd :
    StepHyps c s b (REsc k) r' op ho p' d rd ->
    exists d', data_step K c b ho d = Some d' /\ Rel r' (apply_sop op s) d' (rdata_step false (REsc k) r' op b rd).
  Proof.
    intros (HRS & HD & HB & HP & HR).
    unfold data_step. rewrite (not_fast _ _ _ _ _ d HD) by reflexivity.
    pose proof HR as (HSR & Hdocs & Hhi & Hscr). simpl in Hscr.
    unfold adata_build in HB. rewrite (b_has_num K Hb).
    unfold dcompat in HD. apply andb_true_iff in HD as [_ HD].
    fold (post_ho K ho).
    simpl in HRS. unfold rdata_step. simpl is_num. simpl andb. cbv iota.
    destruct (beqb b x75) eqn:Eu.
    - apply act_eqb_eq in HD. rewrite HD in *.
      apply beqb_eq in Eu. subst b. simpl in HRS. injection HRS as <- <-.
      apply same_inv in HB as (_ & E1 & ->). rewrite E1 in HP.
      eexists. split; [reflexivity|]. simpl in HP |- *. unfold Rel. rewrite HP. simpl. repeat split; assumption.
    - apply andb_true_iff in HD as [Ha He]. apply act_eqb_eq in Ha. rewrite Ha in *.
      destruct (k_data K (c_mode c) b) as [e|] eqn:Hd; [|discriminate He]. apply beqb_eq in He. subst e.
      destruct (is_esc b); [|discriminate HRS]. injection HRS as <- <-.
      apply same_inv in HB as (_ & E1 & ->). rewrite E1 in HP.
      eexists. split; [reflexivity|]. simpl in HP |- *. unfold Rel. rewrite HP.
      unfold app_str. rewrite (flush_hi_none _ Hhi). simpl. rewrite Hscr. repeat split; assumption.
  Qed.

  Lemma step_hex c s b k n r' op ho p' d rd :
    StepHyps c s b (RHex k n) r' op ho p' d rd ->
    exists d', data_step K c b ho d = Some d' /\ Rel r' (apply_sop op s) d' (rdata_step false (RHex k n) r' op b rd).
  Proof.
    intros (HRS & HD & HB & HP & HR).
    unfold data_step. rewrite (not_fast _ _ _ _ _ d HD) by reflexivity.
    pose proof HR as (HSR & Hdocs & Hhi & Hscr). simpl in Hscr. destruct Hscr as [Htmp Hrn].
    unfold adata_build in HB. rewrite (b_has_num K Hb).
    pose proof (dfacts_of _ _ _ _ _ HD) as HF. unfold dfacts in HF. apply andb_true_iff in HF as [HF _].
    apply andb_true_iff in HF as [HF _]. apply andb_true_iff in HF as [HF _]. apply andb_true_iff in HF as [_ Hri].
    apply Z.eqb_eq in Hri.
    unfold dcompat in HD. apply andb_true_iff in HD as [_ HD].
    fold (post_ho K ho).
    simpl in HRS. unfold rdata_step. simpl is_num. simpl andb. cbv iota.
    apply act_eqb_eq in HD. rewrite HD in *.
    destruct (is_hex b); [|discriminate HRS]. injection HRS as <- <-.
    apply same_inv in HB as (_ & E1 & ->). rewrite E1 in HP.
    rewrite Hri. cbn [d_rn upd_fast d_rtmp upd_rn].
    replace (n + 1 =? 4) with (n =? 3) by (destruct (Z.eqb_spec n 3), (Z.eqb_spec (n + 1) 4); try reflexivity; lia).
    destruct (n =? 3) eqn:E3.
    - eexists. split; [reflexivity|]. simpl in HP |- *. unfold Rel. rewrite HP. simpl.
      rewrite Htmp, Hrn. repeat split; assumption.
    - eexists. split; [reflexivity|]. simpl in HP |- *. unfold Rel. rewrite HP. simpl.
      rewrite Hrn. repeat split; assumption.
  Qed.

  Lemma lit_eqb_eq a b : lit_eqb a b = true -> a = b.
  Proof. destruct a, b; try discriminate; reflexivity. Qed.

  Lemma step_lit c s b l n r' op ho p' d rd :
    StepHyps c s b (RLit l n) r' op ho p' d rd ->
    exists d', data_step K c b ho d = Some d' /\ Rel r' (apply_sop op s) d' (rdata_step false (RLit l n) r' op b rd).
  Proof.
    intros (HRS & HD & HB & HP & HR).
    unfold data_step. rewrite (not_fast _ _ _ _ _ d HD) by reflexivity.
    pose proof (VRel_of _ _ _ _ HR) as HV.
    unfold adata_build in HB.
    pose proof (dfacts_of _ _ _ _ _ HD) as HF. unfold dfacts in HF. apply andb_true_iff in HF as [HF _].
    apply andb_true_iff in HF as [HF _]. apply andb_true_iff in HF as [HF _]. apply andb_true_iff in HF as [_ Hri].
    apply andb_true_iff in Hri as [Hri Hlen]. apply Z.eqb_eq in Hri. apply Bool.eqb_prop in Hlen.
    unfold dcompat in HD. apply andb_true_iff in HD as [_ HD].
    apply andb_true_iff in HD as [Ha Hl]. apply act_eqb_eq in Ha. rewrite Ha in *.
    fold (post_ho K ho).
    simpl in HRS. unfold rdata_step. simpl is_num. simpl andb. cbv iota.
    destruct (word_at (lit_word l) n) as [ch|]; [|discriminate HRS].
    destruct (beqb ch b); [|discriminate HRS]. injection HRS as <- <-.
    destruct (sop_eqb SNone SNone) eqn:E0; [|discriminate E0]. clear E0.
    unfold lit_probe in Hl.
    assert (Hcase :
      exists v e, 
        (if Z.of_nat (length (lit_word l)) - 1 <=? c_ri c + 1 then a_emit (view_of s) (pend_of (RLit l n) (view_of s))
         else Some (pend_of (RLit l n) (view_of s), false)) = Some (p', ho) /\
        v = lit_val l /\
        (if is_act (k_tab K (c_mode c) x72) A_tokenOk
         then if Z.of_nat (length w_true) - 1 <=? c_ri c + 1 then emit_val K (upd_fast d false) (JBool true) (EBool true) else Some (upd_fast d false)
         else if is_act (k_tab K (c_mode c) x61) A_tokenOk
         then if Z.of_nat (length w_false) - 1 <=? c_ri c + 1 then emit_val K (upd_fast d false) (JBool false) (EBool false) else Some (upd_fast d false)
         else if is_act (k_tab K (c_mode c) x75) A_tokenOk && is_act (k_tab K (c_mode c) x6c) A_tokenOk
         then if Z.of_nat (length w_null) - 1 <=? c_ri c + 1 then emit_val K (upd_fast d false) JNull ENull else Some (upd_fast d false)
         else Some (upd_fast d false)) =
        (if Z.of_nat (length (lit_word l)) - 1 <=? c_ri c + 1 then emit_val K (upd_fast d false) (trK v) e else Some (upd_fast d false))).
    { destruct (is_act (k_tab K (c_mode c) x72) A_tokenOk).
      - apply lit_eqb_eq in Hl. subst l. exists (JBool true), (EBool true). auto.
      - destruct (is_act (k_tab K (c_mode c) x61) A_tokenOk).
        + apply lit_eqb_eq in Hl. subst l. exists (JBool false), (EBool false). auto.
        + destruct (is_act (k_tab K (c_mode c) x75) A_tokenOk && is_act (k_tab K (c_mode c) x6c) A_tokenOk); [|discriminate Hl].
          apply lit_eqb_eq in Hl. subst l. exists JNull, ENull. auto. }
    destruct Hcase as (v & e & HB' & Hv & ->). clear HB Hl.
    rewrite <- Hlen. rewrite <- Hlen in HP. rewrite <- Hv.
    destruct (Z.of_nat (length (lit_word l)) - 1 <=? c_ri c + 1).
    - pose proof (emit_sim s _ (upd_fast d false) rd v e p' ho HV HB') as (d' & Hd' & HV').
      exists d'. split; [exact Hd'|]. simpl apply_sop in *.
      refine (Rel_noscratch _ _ _ _ _ _ HP HV'). apply after_value_noscratch.
    - injection HB' as E1 E2. rewrite <- E2. rewrite <- E1 in HP.
      eexists. split; [reflexivity|]. simpl apply_sop in *.
      refine (Rel_noscratch _ _ _ _ _ _ HP HV). reflexivity.
  Qed.

  Lemma num_cont_rel p q b (rd : rdata) n f n' f' :
    nb_run (rev (r_numt rd)) = Some (p, n, f) -> nnext p b = Some q -> nupd p b n f = (n', f') ->
    nb_run (rev (b :: r_numt rd)) = Some (q, n', f').
  Proof.
    intros H Hn Hu. simpl rev. rewrite nb_run_snoc.
    - rewrite H, Hn, Hu. reflexivity.
    - intro E. rewrite E in H. discriminate H.
  Qed.

  Lemma step_num_cont c s b p q op ho p' d rd :
    StepHyps c s b (RNum p) (RNum q) op ho p' d rd ->
    exists d', data_step K c b ho d = Some d' /\ Rel (RNum q) (apply_sop op s) d' (rdata_step false (RNum p) (RNum q) op b rd).
  Proof.
    intros (HRS & HD & HB & HP & HR).
    pose proof HR as (HSR & Hdocs & Hhi & Hscr). simpl in Hscr.
    pose proof (dfacts_of _ _ _ _ _ HD) as HF. unfold dfacts in HF. apply andb_true_iff in HF as [HF _].
    apply andb_true_iff in HF as [HF _]. apply andb_true_iff in HF as [HF Hnn]. apply andb_true_iff in HF as [Hdig _].
    apply Bool.eqb_prop in Hdig.
    destruct (nnext p b) as [q0|] eqn:Hnx; [|discriminate Hnn]. apply nphase_eqb_eq in Hnn. subst q0.
    pose proof (fun n' f' => num_cont_rel p q b rd _ _ n' f' Hscr Hnx) as Hrel.
    pose proof (b_has_num K Hb) as Hn.
    assert (Hgoal : forall d', 
      data_step K c b ho d = Some d' -> op = SNone -> p' = pend_of (RNum p) (view_of s) ->
      nupd p b (d_num d) (d_fast d) = (d_num d', d_fast d') ->
      d_stack d' = d_stack d -> d_starts d' = d_starts d -> d_docs d' = d_docs d ->
      exists d', data_step K c b ho d = Some d' /\ Rel (RNum q) (apply_sop op s) d' (rdata_step false (RNum p) (RNum q) op b rd)).
    { intros d' Hd' -> E1 Hu Hs1 Hs2 Hs3. exists d'. split; [exact Hd'|].
      rewrite E1 in HP. simpl in HP |- *. unfold Rel. rewrite HP, Hs1, Hs2, Hs3. simpl.
      repeat split; try assumption. apply Hrel. exact Hu. }
    unfold dcompat in HD. apply andb_true_iff in HD as [_ HD].
    unfold adata_build in HB.
    destruct p; simpl exp_act in HD; unfold nupd in Hgoal; simpl exp_act in Hgoal; simpl rmode_eqb in Hdig.
    all: repeat match type of HD with context [if ?x then _ else _] => destruct x eqn:? end.
    all: apply act_eqb_eq in HD; rewrite HD in HB; apply same_inv in HB as (Eop & E1 & Eho); subst ho op.
    all: destruct (is_big (d_num d)) eqn:Ebig; destruct (d_fast d) eqn:Ef; destruct (fast_digit (d_num d) b) as [nf ff] eqn:Efd.
    all: eapply Hgoal; [ unfold data_step; cbv zeta; rewrite Hdig, HD, Hn, ?Ef; cbn [andb is_act action_code N.eqb Pos.eqb d_num upd_fast]; rewrite ?Ebig, ?Efd; cbn [andb opt_bind]; reflexivity | reflexivity | exact E1 | reflexivity | reflexivity | reflexivity | reflexivity ].
  Qed.

  Lemma VRel_numt s p d rd t : VRel s p d rd -> VRel s p d (set_numt rd t).
  Proof. intros (A & B & C). repeat split; assumption. Qed.

  Lemma VRel_fast s p d rd f : VRel s p d rd -> VRel s p (upd_fast d f) rd.
  Proof. intros (A & B & C). repeat split; assumption. Qed.

  Lemma post_ho_nl ho x d2 s p rd' :
    post_ho K ho x = Some d2 -> VRel s p d2 rd' ->
    exists d', post_ho K ho (opt_bind x (fun d => Some (upd_nl d))) = Some d' /\ VRel s p d' rd'.
  Proof.
    unfold post_ho. destruct x as [d3|]; [|discriminate]. simpl. destruct ho.
    - rewrite !(handoff_b K Hb). simpl. destruct (rev (d_stack d3)); [discriminate|].
      intros H HV. inversion H; subst. eexists. split; [reflexivity|]. exact HV.
    - intros H HV. inversion H; subst. eexists. split; [reflexivity|]. exact HV.
  Qed.

  Lemma step_num_end c s b p r' op ho p' d rd :
    StepHyps c s b (RNum p) r' op ho p' d rd -> is_num r' = false ->
    exists d', data_step K c b ho d = Some d' /\ Rel r' (apply_sop op s) d' (rdata_step false (RNum p) r' op b rd).
  Proof.
    intros (HRS & HD & HB & HP & HR) Hnn.
    pose proof HR as (HSR & Hdocs & Hhi & Hscr). simpl in Hscr.
    pose proof (dfacts_of _ _ _ _ _ HD) as HF. unfold dfacts in HF. apply andb_true_iff in HF as [_ Hns].
    rewrite Hnn in Hns. simpl in Hns.
    pose proof (b_has_num K Hb) as Hn.
    assert (Htr : trK (JBig (rev (r_numt rd))) = num_value K (d_num d)).
    { simpl. unfold num_of. rewrite Hscr. reflexivity. }
    pose proof (VRel_fast _ _ _ _ false (VRel_numt _ _ _ _ [] (VRel_of _ _ _ _ HR))) as HV.
    unfold dcompat in HD. apply andb_true_iff in HD as [_ HD].
    unfold adata_build in HB.
    assert (Href : rdata_step false (RNum p) r' op b rd =
                   apply_op op (add_value (set_numt rd []) (JBig (rev (r_numt rd))))).
    { unfold rdata_step. simpl is_num. rewrite Hnn. reflexivity. }
    rewrite Href. clear Href.
    unfold data_step. cbv zeta.
    destruct r' as [| | | | | | | |k'|k'|k' n'|l' n'|q']; try discriminate Hnn; try discriminate Hns.
    all: destruct op as [|o|]; try discriminate HD.
    all: try (apply act_in3 in HD; destruct HD as [HD|[HD|HD]]; rewrite HD in *;
              cbn [is_act action_code N.eqb Pos.eqb]; rewrite andb_false_r; rewrite Hn;
              simpl in HB; fold (post_ho K ho); unfold emit_num; cbn [d_num upd_fast]; rewrite <- Htr;
              destruct (emit_sim s _ (upd_fast d false) (set_numt rd []) (JBig (rev (r_numt rd))) (num_event (d_num d)) p' ho HV HB) as (d2 & Hd2 & HV2);
              [ exists d2; split; [exact Hd2|]; simpl apply_sop in *; simpl apply_op;
                (refine (Rel_noscratch _ _ _ _ _ _ HP HV2); reflexivity)
              | destruct (post_ho_nl _ _ _ _ _ _ Hd2 HV2) as (d3 & Hd3 & HV3);
                exists d3; split; [exact Hd3|]; simpl apply_sop in *; simpl apply_op;
                (refine (Rel_noscratch _ _ _ _ _ _ HP HV3); reflexivity)
              | exists d2; split; [exact Hd2|]; simpl apply_sop in *; simpl apply_op;
                (refine (Rel_noscratch _ _ _ _ _ _ HP HV2); reflexivity) ]).
    all: apply andb_true_iff in HD as [HD Hfin]; apply act_in2 in HD; destruct HD as [HD|HD]; rewrite HD in *;
      cbn [is_act action_code N.eqb Pos.eqb]; rewrite andb_false_r; rewrite Hn, Hfin; simpl in HB;
      destruct (a_close_inv K _ _ _ _ _ _ HB) as (s' & Es & Ep & Eh & Hpre); rewrite Hn, Hfin in Hpre; simpl in Hpre;
      subst s; rewrite Ep in HP; rewrite Eh;
      fold (post_ho K (match s' with [] => true | _ => false end)); unfold emit_num; cbn [d_num upd_fast andb]; rewrite <- Htr;
      destruct (emit_sim _ _ (upd_fast d false) (set_numt rd []) (JBig (rev (r_numt rd))) (num_event (d_num d)) false false HV Hpre) as (d2 & Hd2 & HV2);
      unfold post_ho in Hd2;
      destruct (emit_val K (upd_fast d false) (trK (JBig (rev (r_numt rd)))) (num_event (d_num d))) as [d3|]; try discriminate Hd2;
      simpl in Hd2; injection Hd2 as ->; simpl opt_bind; simpl apply_sop in *; simpl apply_op.
    all: try (destruct (close_arr_sim s' d2 _ HV2) as (d4 & Hd4 & HV4);
              kinds; (exists d4; split; [exact Hd4|]); (refine (Rel_noscratch _ _ _ _ _ _ HP HV4); reflexivity)).
    all: try (destruct (close_obj_sim s' d2 _ HV2) as (d4 & Hd4 & HV4);
              kinds; (exists d4; split; [exact Hd4|]); (refine (Rel_noscratch _ _ _ _ _ _ HP HV4); reflexivity)).
  Qed.

  Lemma step_data c s b r r' op ho p' d rd :
    StepHyps c s b r r' op ho p' d rd ->
    exists d', data_step K c b ho d = Some d' /\ Rel r' (apply_sop op s) d' (rdata_step false r r' op b rd).
  Proof.
    intro HS. destruct r as [| | | | | | | |k|k|k n|l n|p];
      try (apply (step_structural _ _ _ _ _ _ _ _ _ _ HS eq_refl)).
    - eapply step_str; exact HS.
    - eapply step_esc; exact HS.
    - eapply step_hex; exact HS.
    - eapply step_lit; exact HS.
    - destruct r' as [| | | | | | | |k'|k'|k' n'|l' n'|q];
        try (apply (step_num_end _ _ _ _ _ _ _ _ _ _ HS eq_refl)).
      eapply step_num_cont; exact HS.
  Qed.

  (* ----------------------------------------------------------- the whole machine *)

  Hypothesis Hsweep : sweep_ok one K = true.
  Hypothesis Hdsweep : dsweep_ok one K = true.
  Hypothesis Hsim : simsweep_ok K one = true.

  Lemma simsweep_cell c v b : alpha one c v <> None -> simcell_ok K one c v b = true /\ simend_ok K one c v = true.
  Proof.
    intro A. destruct (alpha one c v) eqn:EA; [|contradiction A; reflexivity]. clear A.
    assert (Hri : (0 <=? c_ri c) && (c_ri c <=? 4) = true).
    { unfold alpha in EA. destruct ((0 <=? c_ri c) && (c_ri c <=? 4)); [reflexivity | discriminate]. }
    assert (Hnx : In (c_next c) nexts).
    { destruct (existsb (mode_eqb (c_next c)) nexts) eqn:E.
      - apply existsb_exists in E as [x [Hx Hm]]. apply mode_eqb_eq in Hm. subst x. exact Hx.
      - unfold alpha in EA. rewrite Hri, E in EA. discriminate EA. }
    pose proof Hsim as H. unfold simsweep_ok in H.
    rewrite forallb_forall in H. specialize (H _ (all_modes_complete (c_mode c))).
    rewrite forallb_forall in H. specialize (H _ Hnx).
    rewrite forallb_forall in H. specialize (H _ (ri_in c Hri)).
    rewrite forallb_forall in H. specialize (H _ (all_views_complete v)).
    apply andb_true_iff in H as [He Hc].
    rewrite forallb_forall in Hc. specialize (Hc _ (all_bytes_complete b)).
    destruct c; simpl in *. auto.
  Qed.

  Lemma Rel_pos r s d rd z : Rel r s d rd -> Rel r s (upd_pos d z) rd.
  Proof. intros (A & B & C & D). split; [exact A|]. split; [exact B|]. split; [exact C|]. destruct r; exact D. Qed.

  Lemma Rel_fast r s d rd : Rel r s d rd -> is_num r = false -> Rel r s (upd_fast d false) rd.
  Proof. intros (A & B & C & D) Hn. split; [exact A|]. split; [exact B|]. split; [exact C|]. destruct r; try discriminate Hn; exact D. Qed.

  Lemma sim_step c s d rd r b :
    alpha one c (view_of s) = Some r -> Rel r s d rd ->
    match step K c s d b, rstep one r (view_of s) b with
    | inr (St c' s' d'), Some (r', op) =>
        s' = apply_sop op s /\ alpha one c' (view_of s') = Some r' /\ Rel r' s' d' (rdata_step false r r' op b rd)
    | inl (OErr _ _), None => True
    | _, _ => False
    end.
  Proof.
    intros A HR. unfold step.
    destruct (sweep_cell one K Hsweep c (view_of s) b) as [Hc _]. unfold cell_ok in Hc. rewrite A in Hc.
    pose proof (dsweep_cell one K Hdsweep c (view_of s) b) as Hd. unfold dcell_ok in Hd. rewrite A in Hd.
    destruct (simsweep_cell c (view_of s) b) as [Hs _]; [rewrite A; discriminate|].
    unfold simcell_ok in Hs. rewrite A in Hs.
    destruct (ctl_step K c (view_of s) b) as [| |c' op ho] eqn:CS.
    - destruct (rstep one r (view_of s) b) as [[? ?]|]; [discriminate Hc | exact I].
    - destruct (rstep one r (view_of s) b) as [[? ?]|]; discriminate Hc.
    - destruct (rstep one r (view_of s) b) as [[r' op']|] eqn:RS; [|discriminate Hc].
      apply andb_true_iff in Hc as [Hc Hall]. apply andb_true_iff in Hc as [Hop Hpop].
      apply sop_eqb_eq in Hop. subst op'.
      rewrite forallb_forall in Hall.
      assert (Hin : In (view_of (apply_sop op s)) (views_after op (view_of s))).
      { apply view_after_in. destruct op; auto. destruct (view_of s); auto; discriminate. }
      specialize (Hall _ Hin).
      destruct (alpha one c' (view_of (apply_sop op s))) as [r''|] eqn:A'; [|discriminate Hall].
      apply rmode_eqb_eq in Hall. subst r''.
      rewrite Hb in Hd.
      destruct (adata_build K c (view_of s) b op (pend_of r (view_of s))) as [[p' et]|] eqn:AD; [|discriminate Hd].
      apply andb_true_iff in Hd as [Hho Hp]. apply Bool.eqb_prop in Hho. subst et.
      rewrite forallb_forall in Hp. specialize (Hp _ Hin). rewrite A' in Hp. apply Bool.eqb_prop in Hp.
      assert (HS : StepHyps c s b r r' op ho p' d rd) by (split; [exact RS|]; split; [exact Hs|]; split; [exact AD|]; split; [exact Hp | exact HR]).
      destruct (step_data _ _ _ _ _ _ _ _ _ _ HS) as (d' & -> & HR').
      split; [reflexivity|]. split; [exact A'|]. apply Rel_pos. exact HR'.
  Qed.

  Lemma sim_run w : forall c s d rd r,
    alpha one c (view_of s) = Some r -> Rel r s d rd ->
    match run K c s d w, rprun one false r s rd w with
    | inr (St c' s' d'), Some (r', s'', rd') => s' = s'' /\ alpha one c' (view_of s') = Some r' /\ Rel r' s' d' rd'
    | inl (OErr _ _), None => True
    | _, _ => False
    end.
  Proof.
    induction w as [|b w IH]; intros c s d rd r A HR; simpl.
    - auto.
    - pose proof (sim_step c s d rd r b A HR) as H.
      destruct (step K c s d b) as [o|[c' s' d']]; destruct (rstep one r (view_of s) b) as [[r' op]|].
      + destruct o; contradiction.
      + exact H.
      + destruct H as (-> & A' & HR'). apply IH; assumption.
      + contradiction.
  Qed.

  Lemma Rel_init : Rel RTop [] (upd_fast data_init false) rdata_init.
  Proof. repeat split. constructor. Qed.

  Theorem parse_refines w :
    match run_all K w with
    | OOk docs _ => exists rdocs, ref_parse one false w = Some rdocs /\ docs = map trK rdocs
    | OErr _ _ => ref_parse one false w = None
    | _ => False
    end.
  Proof.
    unfold run_all, run_all_chunks, ref_parse. simpl run_chunks.
    pose proof (sim_run w ctl_init [] (upd_fast data_init false) rdata_init RTop eq_refl Rel_init) as H.
    destruct (run K ctl_init [] (upd_fast data_init false) w) as [o|[c s d]];
      destruct (rprun one false RTop [] rdata_init w) as [[[r s'] rd]|].
    - destruct o; contradiction.
    - destruct o; try contradiction. reflexivity.
    - destruct H as (<- & A & HR).
      destruct (sweep_cell one K Hsweep c (view_of s) x00) as [_ He]. unfold end_ok in He. rewrite A in He.
      destruct (simsweep_cell c (view_of s) x00) as [_ Hse]; [rewrite A; discriminate|].
      unfold simend_ok in Hse. rewrite A in Hse.
      unfold finish.
      destruct (ctl_end K c (view_of s)) as [t|] eqn:E.
      + apply Bool.eqb_prop in He. rewrite <- He. apply Bool.eqb_prop in Hse. subst t.
        assert (s = []) as ->.
        { unfold ctl_end in E. destruct s as [|x [|y s]]; [reflexivity | discriminate E | discriminate E]. }
        destruct HR as (HSR & Hdocs & Hhi & Hscr).
        destruct (SR_nil K _ _ _ _ HSR) as (Hs1 & Hs2 & Hs3 & _).
        destruct (is_num r) eqn:Hn.
        * destruct r; try discriminate Hn. simpl in Hscr.
          unfold emit_num. rewrite (emit_val_b K Hb). rewrite Hs1. simpl. rewrite (handoff_b K Hb). simpl.
          destruct rd as [fs st hx hi nt docs]. simpl in *. subst fs. simpl.
          eexists. split; [reflexivity|]. rewrite Hdocs. rewrite map_app, map_rev. simpl.
          unfold num_of. rewrite Hscr. reflexivity.
        * eexists. split; [reflexivity|]. rewrite Hdocs, map_rev. reflexivity.
      + apply Bool.eqb_prop in He. rewrite <- He. reflexivity.
    - contradiction.
  Qed.
End Sim.

Lemma parse_bytes_nobom K b w : beqb b xef = false -> parse_bytes K (b :: w) = run_all K (b :: w).
Proof. intro H. unfold parse_bytes. destruct w as [|b1 [|b2 [|b3 r]]]; try reflexivity. rewrite H. reflexivity. Qed.

Lemma parse_bytes_bom K b w : parse_bytes K (xef :: xbb :: xbf :: b :: w) = run_all K (b :: w).
Proof. reflexivity. Qed.

Fixpoint nonum (v : jv) : bool :=
  match v with
  | JBig _ => false
  | JArr l => forallb nonum l
  | JObj m => forallb (fun kv => nonum (snd kv)) m
  | _ => true
  end.

Lemma tr_nonum K v : nonum v = true -> tr K v = v.
Proof.
  induction v using jv_ind2; simpl; intro Hn; try reflexivity; try discriminate Hn.
  - f_equal. induction l as [|x l IHl]; [reflexivity|]. simpl in Hn. apply andb_true_iff in Hn as [H1 H2].
    inversion H; subst. simpl. f_equal; [auto | apply IHl; assumption].
  - f_equal. induction m as [|[k x] m IHm]; [reflexivity|]. simpl in Hn. apply andb_true_iff in Hn as [H1 H2].
    inversion H; subst. simpl in *. f_equal; [f_equal; auto | apply IHm; assumption].
Qed.
