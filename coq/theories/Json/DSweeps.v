(* The discharged data sweeps (vm_compute over the regenerated tables) and the two control
   sweeps of the multi-document validator and tokenizer that C01 does not need. *)
From Coq Require Import Init.Byte NArith ZArith List Bool.
Require Import Ojg.Base.Bytes Ojg.Gen.OjMaps Ojg.Json.Machine Ojg.Json.Ref Ojg.Json.Sweep Ojg.Json.Frontends Ojg.Json.DataInv.
Lemma sweep_validator_multi : sweep_ok false fe_validator_multi = true. Proof. vm_compute. reflexivity. Qed.
Lemma sweep_tokenizer_multi : sweep_ok false fe_tokenizer_multi = true. Proof. vm_compute. reflexivity. Qed.
Lemma dsweep_parser : dsweep_ok true fe_parser = true. Proof. vm_compute. reflexivity. Qed.
Lemma dsweep_validator : dsweep_ok true fe_validator = true. Proof. vm_compute. reflexivity. Qed.
Lemma dsweep_tokenizer : dsweep_ok true fe_tokenizer = true. Proof. vm_compute. reflexivity. Qed.
Lemma dsweep_gen : dsweep_ok true fe_gen = true. Proof. vm_compute. reflexivity. Qed.
Lemma dsweep_parser_multi : dsweep_ok false fe_parser_multi = true. Proof. vm_compute. reflexivity. Qed.
Lemma dsweep_validator_multi : dsweep_ok false fe_validator_multi = true. Proof. vm_compute. reflexivity. Qed.
Lemma dsweep_tokenizer_multi : dsweep_ok false fe_tokenizer_multi = true. Proof. vm_compute. reflexivity. Qed.
Lemma dsweep_gen_multi : dsweep_ok false fe_gen_multi = true. Proof. vm_compute. reflexivity. Qed.
