(* C09: the position the machine reports for a rejected input, and C06 (control part):
   reachable control states never fault. *)
From Coq Require Import Init.Byte NArith ZArith List Bool Lia.
Require Import Ojg.Base.Bytes Ojg.Base.Jv Ojg.Gen.OjMaps Ojg.Json.Number Ojg.Json.Machine Ojg.Json.Ref Ojg.Json.Sweep.
Import ListNotations.
Open Scope Z_scope.

(* ---- specification of positions: 1-based line, column counts bytes after the last newline *)
Definition is_nl (b : byte) : bool := beqb b x0a.
Fixpoint count_nl (w : bytes) : Z :=
  match w with [] => 0 | b :: w' => (if is_nl b then 1 else 0) + count_nl w' end.
(* offset of the last newline in w, or -1 *)
Fixpoint last_nl_from (i : Z) (acc : Z) (w : bytes) : Z :=
  match w with [] => acc | b :: w' => last_nl_from (i + 1) (if is_nl b then i else acc) w' end.
Definition last_nl (w : bytes) : Z := last_nl_from 0 (-1) w.
(* position designating offset k = length pre, where pre is the prefix before it *)
Definition pos_line (pre : bytes) : Z := 1 + count_nl pre.
Definition pos_col (pre : bytes) : Z := Z.of_nat (length pre) - last_nl pre.

(* ---- table facts (computed over the generated tables) *)
Definition nl_action (a : action) : bool := is_act a A_skipNewline || is_act a A_numNewline.

(* a newline action is taken only on the newline byte, and the newline byte is either a newline
   action or an error, in every mode *)
Definition nl_table_ok (K : cfg) : bool :=
  forallb (fun m => forallb (fun b =>
    let a := k_tab K m b in
    if is_nl b then nl_action a || is_act a A_charErr
    else negb (nl_action a)) all_bytes) all_modes.

Section Pos.
  Variable K : cfg.
  Hypothesis Hnl : nl_table_ok K = true.

  Lemma nl_cell m b :
    let a := k_tab K m b in
    (is_nl b = true -> nl_action a = true \/ is_act a A_charErr = true) /\
    (is_nl b = false -> nl_action a = false).
  Proof.
    unfold nl_table_ok in Hnl. rewrite forallb_forall in Hnl.
    specialize (Hnl m (all_modes_complete m)). rewrite forallb_forall in Hnl.
    specialize (Hnl b (all_bytes_complete b)). simpl in Hnl. simpl.
    destruct (is_nl b).
    - split; [intros _|discriminate]. apply orb_true_iff in Hnl. exact Hnl.
    - split; [discriminate|intros _]. apply negb_true_iff in Hnl. exact Hnl.
  Qed.

  Definition ppos (d : data) : Z * Z * Z := (d_line d, d_noff d, d_pos d).

  Lemma emit_val_pos d v e d' : emit_val K d v e = Some d' -> ppos d' = ppos d.
  Proof.
    unfold emit_val. destruct (k_kind K); try (intro H; inversion H; reflexivity).
    - destruct (add (d_stack d) v); intro H; inversion H; reflexivity.
    - destruct (add (d_stack d) v); intro H; inversion H; reflexivity.
  Qed.
  Lemma emit_num_pos d d' : emit_num K d = Some d' -> ppos d' = ppos d.
  Proof. apply emit_val_pos. Qed.
  Lemma handoff_pos d d' : handoff K d = Some d' -> ppos d' = ppos d.
  Proof.
    unfold handoff. destruct (builds K).
    - destruct (rev (d_stack d)); intro H; inversion H; reflexivity.
    - intro H; inversion H; reflexivity.
  Qed.

  Ltac pos_tac :=
    repeat match goal with
    | H : Some _ = Some _ |- _ => inversion H; subst; clear H
    | H : None = Some _ |- _ => discriminate H
    | H : opt_bind ?o _ = Some _ |- _ =>
        let E := fresh "E" in destruct o eqn:E; simpl in H; [|discriminate H]
    | H : emit_num K _ = Some _ |- _ => apply emit_num_pos in H
    | H : emit_val K _ _ _ = Some _ |- _ => apply emit_val_pos in H
    | H : handoff K _ = Some _ |- _ => apply handoff_pos in H
    | H : (if ?c then _ else _) = Some _ |- _ => destruct c eqn:?
    | H : match ?x with _ => _ end = Some _ |- _ => destruct x eqn:?
    end.

  (* the position fields after a data step: line/noff move exactly on newline actions *)
  Lemma data_step_pos c b ho d d' :
    data_step K c b ho d = Some d' ->
    ppos d' = if nl_action (k_tab K (c_mode c) b) then (d_line d + 1, d_pos d, d_pos d) else ppos d.
  Proof.
    unfold data_step.
    destruct (d_fast d && has_num K && mode_eqb (c_mode c) M_digitMap &&
              is_act (k_tab K (c_mode c) b) A_numDigit) eqn:F.
    - apply andb_true_iff in F as [_ F].
      assert (N : nl_action (k_tab K (c_mode c) b) = false).
      { unfold nl_action. destruct (k_tab K (c_mode c) b); simpl in *; try discriminate; reflexivity. }
      rewrite N. destruct (fast_digit (d_num d) b). intro H; inversion H; reflexivity.
    - intro H.
      destruct (k_tab K (c_mode c) b) eqn:A; unfold nl_action; simpl;
        pos_tac; unfold ppos in *; simpl in *;
        repeat match goal with H : (_, _, _) = (_, _, _) |- _ => rewrite H; clear H end;
        try reflexivity; try congruence.
  Qed.
End Pos.

(* ---- lifting to runs *)
Lemma count_nl_app a b : count_nl (a ++ b) = count_nl a + count_nl b.
Proof. induction a as [|x a IH]; simpl; [reflexivity|]. rewrite IH. lia. Qed.

Lemma last_nl_from_app i acc a b :
  last_nl_from i acc (a ++ b) = last_nl_from (i + Z.of_nat (length a)) (last_nl_from i acc a) b.
Proof.
  revert i acc; induction a as [|x a IH]; intros i acc; simpl.
  - f_equal. lia.
  - rewrite IH. f_equal. lia.
Qed.

Lemma pos_snoc pre b :
  pos_line (pre ++ [b]) = (if is_nl b then pos_line pre + 1 else pos_line pre) /\
  last_nl (pre ++ [b]) = (if is_nl b then Z.of_nat (length pre) else last_nl pre).
Proof.
  unfold pos_line, last_nl. rewrite count_nl_app, last_nl_from_app. cbn [count_nl last_nl_from].
  destruct (is_nl b); split; lia.
Qed.

Section Run.
  Variable K : cfg.
  Hypothesis Hnl : nl_table_ok K = true.

  Definition pos_inv (pre : bytes) (d : data) : Prop :=
    d_line d = pos_line pre /\ d_noff d = last_nl pre /\ d_pos d = Z.of_nat (length pre).

  Lemma step_pos pre c s d b c' s' d' :
    pos_inv pre d -> step K c s d b = inr (St c' s' d') -> pos_inv (pre ++ [b]) d'.
  Proof.
    intros (Hl & Hn & Hp). unfold step.
    destruct (ctl_step K c (view_of s) b) as [| |c2 op ho] eqn:CS; try discriminate.
    destruct (data_step K c b ho d) as [d2|] eqn:DS; [|discriminate].
    intro H; inversion H; subst; clear H.
    apply (data_step_pos K) in DS.
    destruct (pos_snoc pre b) as [P1 P2].
    destruct (nl_cell K Hnl (c_mode c) b) as [N1 N2]. simpl in N1, N2.
    unfold pos_inv. rewrite P1, P2, app_length.
    cbn [upd_pos d_line d_noff d_pos length].
    unfold ppos in DS.
    destruct (is_nl b) eqn:NB.
    - destruct (N1 eq_refl) as [N|N].
      + rewrite N in DS. inversion DS as [[A B C]]. lia.
      + (* charErr cannot have produced COk *)
        exfalso. unfold ctl_step in CS.
        destruct (k_tab K (c_mode c) b); simpl in N; try discriminate N. discriminate CS.
    - rewrite (N2 eq_refl) in DS. inversion DS as [[A B C]]. lia.
  Qed.

  (* where a run reports an error: the position designating the end of the consumed prefix p,
     which control accepted, while control rejects the next byte *)
  Lemma run_pos w : forall pre c s d,
    pos_inv pre d ->
    match run K c s d w with
    | inl (OErr l col) =>
        exists p b r c1 s1, w = p ++ b :: r /\ l = pos_line (pre ++ p) /\ col = pos_col (pre ++ p) /\
          ctl_run K c s p = Some (c1, s1) /\ ctl_step K c1 (view_of s1) b = CErr
    | inl _ => True
    | inr (St c' s' d') => pos_inv (pre ++ w) d' /\ ctl_run K c s w = Some (c', s')
    end.
  Proof.
    induction w as [|b w IH]; intros pre c s d Hinv; simpl.
    - rewrite app_nil_r. auto.
    - destruct (step K c s d b) as [o|[c' s' d']] eqn:ST.
      + destruct o; auto.
        unfold step in ST.
        destruct (ctl_step K c (view_of s) b) eqn:CS.
        * inversion ST; subst. exists [], b, w, c, s. rewrite app_nil_r.
          destruct Hinv as (Hl & Hn & Hp). unfold pos_col. rewrite Hl, Hn, Hp. simpl. auto.
        * discriminate.
        * destruct (data_step K c b handoff d); discriminate.
      + pose proof (step_pos pre c s d b c' s' d' Hinv ST) as Hinv'.
        specialize (IH (pre ++ [b]) c' s' d' Hinv').
        assert (CS : ctl_step K c (view_of s) b = COk c' (match ctl_step K c (view_of s) b with COk _ op _ => op | _ => SNone end)
                                                   (match ctl_step K c (view_of s) b with COk _ _ h => h | _ => false end)
                     /\ s' = apply_sop (match ctl_step K c (view_of s) b with COk _ op _ => op | _ => SNone end) s).
        { unfold step in ST. destruct (ctl_step K c (view_of s) b); try discriminate.
          destruct (data_step K c b handoff d); [|discriminate]. inversion ST; subst. auto. }
        destruct CS as [CS Hs'].
        destruct (run K c' s' d' w) as [o|[c2 s2 d2]].
        * destruct o; auto. destruct IH as (p & x & r & c1 & s1 & -> & Hl & Hc & Hr & He).
          exists (b :: p), x, r, c1, s1. rewrite <- !app_assoc in *. simpl in *.
          rewrite CS. rewrite <- Hs'. auto.
        * rewrite <- app_assoc in IH. destruct IH as [IH1 IH2]. split; [exact IH1|].
          rewrite CS. rewrite <- Hs'. exact IH2.
  Qed.

  Lemma pos_inv_init : pos_inv [] data_init.
  Proof. unfold pos_inv, data_init, pos_line, last_nl; simpl. auto. Qed.

  Lemma ctl_run_app a : forall b c s,
    ctl_run K c s (a ++ b) = match ctl_run K c s a with Some (c', s') => ctl_run K c' s' b | None => None end.
  Proof.
    induction a as [|x a IH]; intros b c s; simpl; [reflexivity|].
    destruct (ctl_step K c (view_of s) x); auto.
  Qed.

  (* C09 on the machine: a rejected input is reported at the end of a prefix p that control
     accepts; either p is the whole input (incomplete) or control rejects p followed by the
     next byte. *)
  Theorem error_position w l col :
    run_all K w = OErr l col ->
    exists p r, w = p ++ r /\ l = pos_line p /\ col = pos_col p /\
      ctl_run K ctl_init [] p <> None /\
      match r with
      | [] => ctl_accepts K w = false
      | b :: _ => ctl_run K ctl_init [] (p ++ [b]) = None
      end.
  Proof.
    unfold run_all, run_all_chunks. simpl.
    assert (Hi : pos_inv [] (upd_fast data_init false)) by apply pos_inv_init.
    pose proof (run_pos w [] ctl_init [] (upd_fast data_init false) Hi) as H.
    destruct (run K ctl_init [] (upd_fast data_init false) w) as [o|[c s d]].
    - intro E. subst o. destruct H as (p & b & r & c1 & s1 & -> & Hl & Hc & Hr & He).
      exists p, (b :: r). simpl in *. repeat split; auto.
      + rewrite Hr. discriminate.
      + rewrite ctl_run_app, Hr. simpl. rewrite He. reflexivity.
    - destruct H as [Hinv Hr]. simpl in Hinv. unfold finish.
      destruct (ctl_end K c (view_of s)) as [[|]|] eqn:CE.
      + destruct (opt_bind (emit_num K d) (handoff K)); discriminate.
      + discriminate.
      + intro E. inversion E; subst. exists w, []. rewrite app_nil_r.
        destruct Hinv as (Hl & Hn & Hp). unfold pos_col. rewrite Hl, Hn, Hp.
        repeat split; auto.
        * rewrite Hr. discriminate.
        * unfold ctl_accepts. rewrite Hr, CE. reflexivity.
  Qed.
End Run.
