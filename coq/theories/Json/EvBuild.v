(* The reference event stream, folded by a builder, gives the reference documents: the
   Tokenizer-side and the Parser-side specifications (ref_events, ref_parse) describe the same
   values. With TokSim.tok_chunks_refine and ChunkSim.chunks_refine: "Tokenizer + Builder" and
   "Parser" are two images of one reference run. *)
From Coq Require Import Init.Byte NArith ZArith List Bool Lia.
Require Import Ojg.Base.Bytes Ojg.Base.Jv Ojg.Base.Utf8 Ojg.Json.Machine Ojg.Json.Ref Ojg.Json.RefParse Ojg.Json.ValueSim Ojg.Json.TokSim.
Import ListNotations.
Open Scope Z_scope.

(* a builder over events (what alt.Builder does with the callbacks), on the reference's frames *)
Definition bstep (d : rdata) (e : ev) : rdata :=
  match e with
  | ENumber t => add_value d (JBig t)
  | EString s => add_value d (JStr s)
  | EBool b => add_value d (JBool b)
  | ENull => add_value d JNull
  | EKey k => match r_frames d with FObj mm _ :: fs => set_frames d (FObj mm (Some k) :: fs) | _ => d end
  | EObjStart => set_frames d (FObj [] None :: r_frames d)
  | EArrStart => set_frames d (FArr [] :: r_frames d)
  | EObjEnd | EArrEnd => close_top d
  | EInt _ | EFloat _ => d
  end.

Definition build_events (evs : list ev) : list jv := rev (r_docs (fold_left bstep evs rdata_init)).

Definition same_fd (a b : rdata) : Prop := r_frames a = r_frames b /\ r_docs a = r_docs b.

Lemma sf_refl a : same_fd a a. Proof. split; reflexivity. Qed.

Lemma sf_add a b v : same_fd a b -> same_fd (add_value a v) (add_value b v).
Proof.
  destruct a as [fa sa ha ia na da], b as [fb sb hb ib nb db]. unfold same_fd. simpl. intros [-> ->].
  destruct fb as [|[items|m [k|]] fs]; simpl; auto.
Qed.
Lemma sf_setf a b f : same_fd a b -> same_fd (set_frames a f) (set_frames b f).
Proof. unfold same_fd. simpl. intros [_ ->]. auto. Qed.
Lemma sf_close a b : same_fd a b -> same_fd (close_top a) (close_top b).
Proof.
  intros H. unfold close_top. destruct H as [Hf Hd]. rewrite Hf.
  destruct (r_frames b) as [|f fs] eqn:E; [split; [rewrite E; exact Hf | exact Hd]|].
  apply sf_add. split; simpl; [reflexivity | exact Hd].
Qed.
Lemma sf_str a b s h : same_fd a b -> same_fd a (set_str b s h).
Proof. unfold same_fd. simpl. auto. Qed.
Lemma sf_hex a b h : same_fd a b -> same_fd a (set_hex b h).
Proof. unfold same_fd. simpl. auto. Qed.
Lemma sf_numt a b t : same_fd a b -> same_fd a (set_numt b t).
Proof. unfold same_fd. simpl. auto. Qed.
Lemma sf_numt_l a b t : same_fd a b -> same_fd (set_numt a t) b.
Proof. unfold same_fd. simpl. auto. Qed.

Lemma sf_key a b k : same_fd a b ->
  same_fd (match r_frames a with FObj mm _ :: fs => set_frames a (FObj mm (Some k) :: fs) | _ => a end)
          (match r_frames b with FObj mm _ :: fs => set_frames b (FObj mm (Some k) :: fs) | _ => b end).
Proof.
  intros [Hf Hd]. rewrite Hf. destruct (r_frames b) as [|[|] ?] eqn:E; try (split; [rewrite E; exact Hf | exact Hd]).
  split; simpl; [reflexivity | exact Hd].
Qed.

Lemma bstep_sf a b e : same_fd a b -> same_fd (bstep a e) (bstep b e).
Proof.
  intro H. destruct e; simpl; try exact H; try (apply sf_add; exact H); try (apply sf_close; exact H).
  - apply sf_key. exact H.
  - destruct H as [Hf Hd]. split; simpl; [rewrite Hf; reflexivity | exact Hd].
  - destruct H as [Hf Hd]. split; simpl; [rewrite Hf; reflexivity | exact Hd].
Qed.

Lemma sf_trans a b c : same_fd a b -> same_fd b c -> same_fd a c.
Proof. intros [A1 A2] [B1 B2]. split; congruence. Qed.
Lemma sf_sym a b : same_fd a b -> same_fd b a.
Proof. intros [A1 A2]. split; auto. Qed.

(* the events of one transition, folded, are the transition's effect on frames and documents *)
Lemma step_events m m' op b s rd bd :
  r_hi rd = None -> same_fd bd rd ->
  same_fd (fold_left bstep (rev_step m m' op b s rd) bd) (rdata_step false m m' op b rd).
Proof.
  intros Hhi H. unfold rev_step, rdata_step. cbv zeta.
  rewrite !fold_left_app.
  (* 1. a number that ends *)
  set (b1 := fold_left bstep (if is_num m && negb (is_num m') then [ENumber (rev (r_numt rd))] else []) bd).
  set (d1 := if is_num m && negb (is_num m') then add_value (set_numt rd []) (JBig (rev (r_numt rd))) else rd).
  assert (H1 : same_fd b1 d1 /\ r_hi d1 = None /\ r_str d1 = r_str rd).
  { unfold b1, d1. destruct (is_num m && negb (is_num m')); simpl.
    - split; [apply sf_add; apply sf_numt; exact H|]. rewrite add_value_hi. simpl. split; [exact Hhi|].
      destruct rd as [fs st hx hi nt docs]. destruct fs as [|[items|mm [k|]] fs]; reflexivity.
    - auto. }
  clearbody b1 d1. destruct H1 as (H1 & Hhi1 & Hstr1).
  (* 2. the value part *)
  match goal with |- same_fd (fold_left bstep ?e3 (fold_left bstep ?e2 b1)) (match op with SNone => ?x | _ => _ end) =>
    set (b2 := fold_left bstep e2 b1); set (d2 := x) end.
  assert (H2 : same_fd b2 d2).
  { unfold b2, d2. destruct m; try (destruct m'; simpl; first [exact H1 | apply sf_str; exact H1 | apply sf_numt; exact H1]).
    - (* RStr *) destruct (beqb b x22); simpl.
      + rewrite (flush_hi_none _ Hhi1). rewrite <- Hstr1. destruct key; simpl.
        * apply sf_key. exact H1.
        * apply sf_add. exact H1.
      + destruct (beqb b x5c); [exact H1|]. unfold app_str. rewrite (flush_hi_none _ Hhi1). apply sf_str. exact H1.
    - (* REsc *) destruct (beqb b x75); [apply sf_hex; exact H1|]. unfold app_str. rewrite (flush_hi_none _ Hhi1). apply sf_str. exact H1.
    - (* RHex *) destruct (n =? 3); simpl; [apply sf_str; apply sf_hex; exact H1 | apply sf_hex; exact H1].
    - (* RLit *) destruct (n + 1 =? Z.of_nat (length (lit_word l))); simpl; [|exact H1].
      destruct l; simpl; apply sf_add; exact H1. }
  clearbody b2 d2.
  destruct op as [|[|]|]; simpl.
  - exact H2.
  - destruct H2 as [Hf Hd]. split; simpl; [rewrite Hf; reflexivity | exact Hd].
  - destruct H2 as [Hf Hd]. split; simpl; [rewrite Hf; reflexivity | exact Hd].
  - destruct s as [|[] ?]; simpl; apply sf_close; exact H2.
Qed.

Lemma rerun_build one w : forall m s d evs,
  r_hi d = None -> same_fd (fold_left bstep (rev evs) rdata_init) d ->
  match rerun one m s d evs w with
  | Some (m', s', d', evs') => same_fd (fold_left bstep (rev evs') rdata_init) d' /\ r_hi d' = None
  | None => True
  end.
Proof.
  induction w as [|b w IH]; intros m s d evs Hhi H; simpl; [auto|].
  destruct (rstep one m (view_of s) b) as [[m' op]|]; [|exact I].
  apply IH.
  - apply rdata_step_hi. exact Hhi.
  - rewrite rev_app_distr, rev_involutive, fold_left_app. apply step_events; assumption.
Qed.

(* the reference event stream, folded by the builder, is the reference document list *)
Theorem ref_events_build one w evs :
  ref_events one w = Some evs -> ref_parse one false w = Some (build_events evs).
Proof.
  unfold ref_events, ref_parse, build_events.
  pose proof (rerun_rprun one w RTop [] rdata_init []) as HL.
  pose proof (rerun_build one w RTop [] rdata_init [] eq_refl (sf_refl _)) as HB.
  destruct (rerun one RTop [] rdata_init [] w) as [[[[m1 s1] d1] e1]|]; [|discriminate].
  destruct (rprun one false RTop [] rdata_init w) as [[[m2 s2] d2]|]; [|contradiction].
  destruct HL as (-> & -> & ->). destruct HB as [HB _].
  destruct (rend m2 (view_of s2)); [|discriminate]. intro H. injection H as <-.
  destruct (is_num m2).
  - simpl rev. rewrite fold_left_app. simpl.
    destruct (sf_add _ _ (JBig (rev (r_numt d2))) HB) as [_ Hd]. rewrite Hd. reflexivity.
  - destruct HB as [_ Hd]. rewrite Hd. reflexivity.
Qed.
