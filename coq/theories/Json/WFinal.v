(* C04: for every option set, every WriteLimit and every tree whose number texts are JSON numbers,
   the reference parser reads the writer's output back as one document: the written tree with
   numbers as their text, strings sanitized, omitted members gone (toref). *)
From Coq Require Import Init.Byte NArith ZArith List Bool Lia.
Require Import Ojg.Base.Bytes Ojg.Base.Jv Ojg.Json.Machine Ojg.Json.Ref Ojg.Json.RefParse Ojg.Json.Writer Ojg.Json.WriterFacts.
Require Import Ojg.Json.WRound Ojg.Json.WInt.
Import ListNotations.

(* the only requirement on the tree: float and big-number texts are JSON numbers *)
Fixpoint numtexts_ok (v : jv) : bool :=
  match v with
  | JFloat t | JBig t => num_ok t
  | JArr l => forallb numtexts_ok l
  | JObj m => (fix go (m : list (bytes * jv)) : bool :=
                 match m with [] => true | (_, x) :: m' => numtexts_ok x && go m' end) m
  | _ => true
  end.

Lemma wf_of v : numtexts_ok v = true -> wf v = true.
Proof.
  induction v using jv_ind2; simpl; intro Hn; try reflexivity; try exact Hn.
  - apply num_ok_format_int.
  - rewrite forallb_forall in *. rewrite Forall_forall in H. intros x Hin. apply H; [exact Hin | apply Hn; exact Hin].
  - induction m as [|[k x] m IHm]; [reflexivity|].
    apply andb_true_iff in Hn as [Hx Hm]. inversion H; subst. apply andb_true_iff. split; [simpl in *; auto | apply IHm; assumption].
Qed.

Lemma write_all_text o lim v : write_all o lim v = text o 0 (if w_sort o then sort_tree v else v).
Proof.
  unfold write_all.
  pose proof (stream_text o lim (if w_sort o then sort_tree v else v) 0 ([], [])) as H. unfold flat in H. simpl in H. exact H.
Qed.

Theorem writer_round_trip one o lim v :
  let v' := if w_sort o then sort_tree v else v in
  numtexts_ok v' = true ->
  ref_parse one false (write_all o lim v) = Some [toref o v'].
Proof.
  intros v' H. rewrite write_all_text. apply text_round_trip. apply wf_of. exact H.
Qed.
