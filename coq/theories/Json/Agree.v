(* C03: oj.Parser and gen.Parser deliver the same documents (as generic values) for every input. *)
From Coq Require Import Init.Byte NArith ZArith List Bool Lia.
Require Import Ojg.Base.Bytes Ojg.Base.Jv Ojg.Json.Number Ojg.Json.Machine Ojg.Json.Ref Ojg.Json.RefParse Ojg.Json.Sweep Ojg.Json.DataInv Ojg.Json.Frontends.
Require Import Ojg.Json.Sweep_parser Ojg.Json.Sweep_gen Ojg.Json.DSweeps Ojg.Json.ValueSim Ojg.Json.ValueSimSweeps.
Import ListNotations.

Lemma num_value_kind K1 K2 n : num_value K1 n = num_value K2 n.
Proof. unfold num_value. destruct (k_kind K1), (k_kind K2); reflexivity. Qed.

Lemma tr_kind K1 K2 v : tr K1 v = tr K2 v.
Proof.
  induction v using jv_ind2; simpl; try reflexivity.
  - apply num_value_kind.
  - f_equal. induction H as [|x l Hx H IH]; simpl; [reflexivity | rewrite Hx, IH; reflexivity].
  - f_equal. induction H as [|[k x] m Hx H IH]; simpl; [reflexivity|]. simpl in Hx. rewrite Hx, IH. reflexivity.
Qed.

Theorem parser_gen_agree w :
  match run_all fe_parser w, run_all fe_gen w with
  | OOk d1 _, OOk d2 _ => d1 = d2
  | OErr _ _, OErr _ _ => True
  | _, _ => False
  end.
Proof.
  pose proof (parse_refines true fe_parser eq_refl sweep_parser dsweep_parser simsweep_parser w) as H1.
  pose proof (parse_refines true fe_gen eq_refl sweep_gen dsweep_gen simsweep_gen w) as H2.
  destruct (run_all fe_parser w) as [l1 c1| | |d1 e1]; destruct (run_all fe_gen w) as [l2 c2| | |d2 e2]; try contradiction; auto.
  - destruct H2 as (r2 & H2 & _). rewrite H1 in H2. discriminate H2.
  - destruct H1 as (r1 & H1 & _). rewrite H2 in H1. discriminate H1.
  - destruct H1 as (r1 & H1 & ->). destruct H2 as (r2 & H2 & ->). rewrite H1 in H2. injection H2 as <-.
    apply map_ext. intro v. apply tr_kind.
Qed.

Theorem parser_gen_agree_multi w :
  match run_all fe_parser_multi w, run_all fe_gen_multi w with
  | OOk d1 _, OOk d2 _ => d1 = d2
  | OErr _ _, OErr _ _ => True
  | _, _ => False
  end.
Proof.
  pose proof (parse_refines false fe_parser_multi eq_refl sweep_parser_multi dsweep_parser_multi simsweep_parser_multi w) as H1.
  pose proof (parse_refines false fe_gen_multi eq_refl sweep_gen_multi dsweep_gen_multi simsweep_gen_multi w) as H2.
  destruct (run_all fe_parser_multi w) as [l1 c1| | |d1 e1]; destruct (run_all fe_gen_multi w) as [l2 c2| | |d2 e2]; try contradiction; auto.
  - destruct H2 as (r2 & H2 & _). rewrite H1 in H2. discriminate H2.
  - destruct H1 as (r1 & H1 & _). rewrite H2 in H1. discriminate H1.
  - destruct H1 as (r1 & H1 & ->). destruct H2 as (r2 & H2 & ->). rewrite H1 in H2. injection H2 as <-.
    apply map_ext. intro v. apply tr_kind.
Qed.
