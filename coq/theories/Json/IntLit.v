(* C02, integer literals through the machine's own path: what [num_of] (ValueSim.v: the number
   builder folded over a literal, scan-ahead loop included) makes of a plain integer literal.
   Together with ValueSim.parse_refines: a number leaf whose literal is a plain integer below the
   scan-ahead threshold (non-negative) or within int64 (negative) is delivered as that int64. *)
From Coq Require Import Init.Byte NArith ZArith List Bool Lia.
Require Import Ojg.Base.Bytes Ojg.Base.Jv Ojg.Gen.Consts Ojg.Gen.OjMaps Ojg.Json.Number Ojg.Json.NumberFacts Ojg.Json.Machine Ojg.Json.Ref Ojg.Json.ValueSim.
Import ListNotations.
Open Scope Z_scope.

Definition val_from (v : Z) (ds : bytes) : Z := fold_left (fun acc d => acc * 10 + digit_val d) ds v.
Definition all_digits (ds : bytes) : Prop := Forall (fun b => is_digit b = true) ds.

Lemma val_from_ge ds : forall v, all_digits ds -> 0 <= v -> v <= val_from v ds.
Proof.
  induction ds as [|b ds IH]; intros v H Hv; simpl; [lia|].
  inversion H; subst. pose proof (is_digit_ok b H2) as Hd. unfold digit_ok in Hd.
  specialize (IH (v * 10 + digit_val b) H3 ltac:(lia)). unfold val_from in *. lia.
Qed.

Lemma nnext_int_digit b : is_digit b = true -> nnext NInt b = Some NInt.
Proof. intro H. unfold nnext. simpl. rewrite H. reflexivity. Qed.

Lemma exp_act_int_digit b : is_digit b = true -> exp_act NInt b = Some A_numDigit.
Proof. intro H. unfold exp_act. rewrite H. reflexivity. Qed.

(* the scan-ahead loop on digits, below the threshold *)
Lemma fast_cont ds : forall v, all_digits ds -> 0 <= v ->
  (ds <> [] -> val_from v ds < gen_BigLimit * 10) ->
  nb_cont NInt (set_I num_reset v) true ds = Some (NInt, set_I num_reset (val_from v ds), true).
Proof.
  induction ds as [|b ds IH]; intros v H Hv Hlim; simpl; [reflexivity|].
  inversion H; subst. rewrite (nnext_int_digit b H2).
  unfold nupd. rewrite (exp_act_int_digit b H2). unfold fast_digit.
  pose proof (is_digit_ok b H2) as Hd. unfold digit_ok in Hd.
  assert (Hlt : v < gen_BigLimit).
  { assert (Hne : b :: ds <> []) by discriminate. specialize (Hlim Hne). simpl in Hlim.
    pose proof (val_from_ge ds (v * 10 + digit_val b) H3 ltac:(lia)). unfold val_from, gen_BigLimit in *. lia. }
  simpl nI. destruct (gen_BigLimit <=? v) eqn:E; [apply Z.leb_le in E; lia|].
  change (set_I (set_I num_reset v) (v * 10 + digit_val b)) with (set_I num_reset (v * 10 + digit_val b)).
  apply IH; [exact H3 | lia |].
  intros _. apply Hlim. discriminate.
Qed.

(* the digit-at-a-time path on digits *)
Lemma slow_cont ds : forall n, all_digits ds ->
  nb_cont NInt n false ds = Some (NInt, fold_left add_digit ds n, false).
Proof.
  induction ds as [|b ds IH]; intros n H; simpl; [reflexivity|].
  inversion H; subst. rewrite (nnext_int_digit b H2).
  unfold nupd. rewrite (exp_act_int_digit b H2). apply IH. exact H3.
Qed.

Lemma is_19_facts b : is_19 b = true -> beqb b x2d = false /\ beqb b x30 = false /\ is_digit b = true.
Proof.
  intro H. repeat split.
  - destruct (beqb b x2d) eqn:E; [|reflexivity]. apply beqb_eq in E. subst b. discriminate H.
  - destruct (beqb b x30) eqn:E; [|reflexivity]. apply beqb_eq in E. subst b. discriminate H.
  - unfold is_19 in H. unfold is_digit. apply andb_true_iff in H as [H1 H2].
    apply Z.leb_le in H1. apply andb_true_iff. split; [apply Z.leb_le; lia | exact H2].
Qed.

Theorem int_literal_plain d1 ds :
  is_19 d1 = true -> all_digits ds -> digits_val (d1 :: ds) < gen_BigLimit * 10 ->
  as_num (num_of (d1 :: ds)) = JInt (digits_val (d1 :: ds)).
Proof.
  intros H1 Hds Hlim. destruct (is_19_facts d1 H1) as (Hm & Hz & Hd1).
  pose proof (is_digit_ok d1 Hd1) as Hok. unfold digit_ok in Hok.
  assert (Hv : digits_val (d1 :: ds) = val_from (digit_val d1) ds) by reflexivity.
  unfold num_of, nb_run, nstart. rewrite Hm, Hz, H1.
  rewrite (fast_cont ds (digit_val d1) Hds ltac:(lia)) by (intros _; rewrite <- Hv; exact Hlim).
  rewrite <- Hv.
  assert (H0 : 0 <= digits_val (d1 :: ds)).
  { rewrite Hv. pose proof (val_from_ge ds (digit_val d1) Hds ltac:(lia)). lia. }
  unfold as_num, is_big, int_result, to_int64. simpl.
  unfold gen_BigLimit, max_int64 in *.
  destruct (digits_val (d1 :: ds) <=? 9223372036854775807) eqn:E; [reflexivity | apply Z.leb_gt in E; lia].
Qed.

Theorem int_literal_zero : as_num (num_of [x30]) = JInt 0.
Proof. reflexivity. Qed.

Theorem int_literal_neg d1 ds :
  is_19 d1 = true -> all_digits ds -> digits_val (d1 :: ds) <= max_int64 ->
  as_num (num_of (x2d :: d1 :: ds)) = JInt (- digits_val (d1 :: ds)).
Proof.
  intros H1 Hds Hlim. destruct (is_19_facts d1 H1) as (Hm & Hz & Hd1).
  assert (Hnx : nnext NNeg d1 = Some NInt). { unfold nnext. simpl. rewrite Hz, H1. reflexivity. }
  unfold num_of, nb_run. change (nstart x2d) with (Some (NNeg, set_neg num_reset, false)). cbv iota beta.
  cbn [nb_cont]. rewrite Hnx. unfold nupd at 1. unfold exp_act. rewrite Hz.
  rewrite (slow_cont ds _ Hds).
  change (fold_left add_digit ds (add_digit (set_neg num_reset) d1)) with (fold_left add_digit (d1 :: ds) (set_neg num_reset)).
  assert (Hall : Forall digit_ok (d1 :: ds)).
  { constructor; [apply is_digit_ok; exact Hd1|]. eapply Forall_impl; [|exact Hds]. intros a Ha. apply is_digit_ok. exact Ha. }
  exact (slow_int_exact (d1 :: ds) true Hall Hlim).
Qed.
