(* data part of the scratch-field lemma for one kind of front-end (split for parallel builds) *)
From Coq Require Import Init.Byte NArith ZArith List Bool Lia.
Require Import Ojg.Base.Bytes Ojg.Base.Jv Ojg.Gen.OjMaps Ojg.Json.Number Ojg.Json.Machine Ojg.Json.Sweep Ojg.Json.Scratch.
Import ListNotations.
Open Scope Z_scope.

Lemma data_norm_gen K (Hsw : scratch_sweep K = true) (Hk : k_kind K = KGen) : data_norm_stmt K.
Proof.
  unfold data_norm_stmt. data_norm_tac K Hsw Hk.
  all: data_norm_finish Hn Pf.
Qed.
