(* The outcome of the whole machine is decided by the control run: documents / events are
   delivered exactly when control accepts, an error is reported exactly when it rejects.
   With C01 (control accepts = reference accepts) all four front-ends accept the same texts. *)
From Coq Require Import Init.Byte NArith ZArith List Bool Lia.
Require Import Ojg.Base.Bytes Ojg.Base.Jv Ojg.Json.Machine Ojg.Json.Ref Ojg.Json.Sweep Ojg.Json.DataInv Ojg.Json.Position.
Import ListNotations.

Section O.
  Variable one : bool.
  Variable K : cfg.
  Hypothesis Hnl : nl_table_ok K = true.
  Hypothesis Hsweep : sweep_ok one K = true.
  Hypothesis Hdsweep : dsweep_ok one K = true.

  Lemma run_inl w : forall c s d o, run K c s d w = inl o -> (exists l col, o = OErr l col) \/ o = OFault.
  Proof.
    induction w as [|b w IH]; intros c s d o; simpl; [discriminate|].
    destruct (step K c s d b) as [o'|[c' s' d']] eqn:ST.
    - intro E. inversion E; subst. unfold step in ST.
      destruct (ctl_step K c (view_of s) b); [inversion ST; eauto | inversion ST; auto|].
      destruct (data_step K c b handoff d); [discriminate | inversion ST; auto].
    - apply IH.
  Qed.

  Theorem outcome_accepts w :
    match run_all K w with
    | OOk _ _ => ctl_accepts K w = true
    | OErr _ _ => ctl_accepts K w = false
    | _ => False
    end.
  Proof.
    pose proof (chunks_never_fault one K Hsweep Hdsweep [w]) as HF. fold (run_all K w) in HF.
    unfold run_all, run_all_chunks in *. simpl in *.
    pose proof (run_pos K Hnl w [] ctl_init [] (upd_fast data_init false) (pos_inv_init)) as H.
    pose proof (run_inl w ctl_init [] (upd_fast data_init false)) as HO.
    destruct (run K ctl_init [] (upd_fast data_init false) w) as [o|[c s d]].
    - destruct (HO o eq_refl) as [(l & col & ->)| ->]; [|apply HF; reflexivity].
      destruct H as (p & b & r & c1 & s1 & -> & _ & _ & Hr & He).
      unfold ctl_accepts. rewrite (ctl_run_app K p (b :: r)), Hr. simpl. rewrite He. reflexivity.
    - destruct H as [_ Hr]. unfold finish in *. unfold ctl_accepts. rewrite Hr.
      destruct (ctl_end K c (view_of s)) as [[|]|]; try reflexivity.
      destruct (opt_bind (emit_num K d) (handoff K)); [reflexivity | apply HF; reflexivity].
  Qed.

  Definition delivered (o : outcome) : bool := match o with OOk _ _ => true | _ => false end.

  Theorem delivered_iff_ref w : delivered (run_all K w) = ref_accepts one w /\ (delivered (run_all K w) = false -> exists l col, run_all K w = OErr l col).
  Proof.
    pose proof (outcome_accepts w) as H. rewrite <- (accepts_eq_ref one K Hsweep w).
    destruct (run_all K w) as [l col| | |docs evs]; try contradiction; simpl; rewrite H; split; try reflexivity; try discriminate.
    intros _. eauto.
  Qed.
End O.
