(* the action-compatibility sweep of ValueSim.v on the regenerated tables *)
Require Import Ojg.Json.Machine Ojg.Json.Frontends Ojg.Json.ValueSim.
Lemma simsweep_parser : simsweep_ok fe_parser true = true. Proof. vm_compute. reflexivity. Qed.
Lemma simsweep_gen : simsweep_ok fe_gen true = true. Proof. vm_compute. reflexivity. Qed.
Lemma simsweep_parser_multi : simsweep_ok fe_parser_multi false = true. Proof. vm_compute. reflexivity. Qed.
Lemma simsweep_gen_multi : simsweep_ok fe_gen_multi false = true. Proof. vm_compute. reflexivity. Qed.
