(* C07 at the level of the machine: whatever a previous call left in the scratch fields of a
   reused Parser / Validator / Tokenizer (nextMode, ri, the string buffer, the number under
   construction, the rune under construction) cannot influence a later call.

   Each scratch field is live only in some modes (string buffer and nextMode inside strings,
   ri/rn inside \uXXXX, ri inside a literal, the number inside number modes). [norm] overwrites
   the dead fields with constants; a sweep over the regenerated tables shows that no action
   reads a field in a mode where it is dead ([pre]); then one step commutes with [norm], hence
   so does a whole run, and a run from a dirty initial state gives the outcome of a fresh one. *)
From Coq Require Import Init.Byte NArith ZArith List Bool Lia.
Require Import Ojg.Base.Bytes Ojg.Base.Jv Ojg.Gen.OjMaps Ojg.Json.Number Ojg.Json.Machine Ojg.Json.Sweep.
Import ListNotations.
Open Scope Z_scope.

Definition liveS (m : mode) : bool := match m with M_stringMap | M_escMap | M_uMap => true | _ => false end.
Definition liveU (m : mode) : bool := match m with M_uMap => true | _ => false end.
Definition liveL (m : mode) : bool := match m with M_nullMap | M_trueMap | M_falseMap => true | _ => false end.
Definition liveN (m : mode) : bool :=
  match m with
  | M_negMap | M_zeroMap | M_digitMap | M_dotMap | M_fracMap | M_expSignMap | M_expZeroMap | M_expMap => true
  | _ => false
  end.

Definition norm_c (c : fctl) : fctl :=
  mkCtl (c_mode c) (if liveS (c_mode c) then c_next c else M_valueMap)
        (if liveU (c_mode c) || liveL (c_mode c) then c_ri c else 0).

(* inside a string the mode to return to is one of the two the quote actions store *)
Definition next_ok (c : fctl) : bool :=
  negb (liveS (c_mode c)) || mode_eqb (c_next c) M_colonMap || mode_eqb (c_next c) M_afterMap.

Section Scratch.
  Variable K : cfg.

  (* the Validator (no number, no string buffer) never touches the data scratch fields *)
  Definition norm_d (m : mode) (d : data) : data :=
    mkData (d_stack d) (d_starts d) (if liveS m && has_num K then d_rtmp d else [])
           (if liveN m && has_num K then d_num d else num_reset)
           (if liveU m && has_num K then d_rn d else 0) (d_line d) (d_noff d) (d_pos d) (d_docs d) (d_evs d) (d_fast d).

  Definition norm_res (r : outcome + state) : outcome + state :=
    match r with
    | inl o => inl o
    | inr (St c s d) => inr (St (norm_c c) s (norm_d (c_mode c) d))
    end.

  (* which modes an action may occur in without reading a dead field *)
  Definition pre (m : mode) (a : action) : bool :=
    match a with
    | A_numComma | A_numSpc | A_numNewline | A_numDot | A_numFrac | A_fracE | A_numZero | A_negDigit
    | A_expSign | A_expDigit => liveN m
    | A_strSlash | A_escOk | A_escU | A_strQuote => liveS m
    | A_uOk => liveU m
    | A_tokenOk => liveL m
    | A_closeObject | A_closeArray => implb (fin_is K m 110) (liveN m)
    | _ => true
    end.

  Definition scratch_sweep : bool :=
    forallb (fun m => implb (fin_is K m 110) (liveN m) &&
                      forallb (fun b => pre m (k_tab K m b)) all_bytes) all_modes.

  Hypothesis Hsw : scratch_sweep = true.

  Lemma sw_pre m b : pre m (k_tab K m b) = true.
  Proof.
    unfold scratch_sweep in Hsw. rewrite forallb_forall in Hsw.
    specialize (Hsw m (all_modes_complete m)). apply andb_true_iff in Hsw as [_ H].
    rewrite forallb_forall in H. exact (H b (all_bytes_complete b)).
  Qed.
  Lemma sw_fin m : implb (fin_is K m 110) (liveN m) = true.
  Proof.
    unfold scratch_sweep in Hsw. rewrite forallb_forall in Hsw.
    specialize (Hsw m (all_modes_complete m)). apply andb_true_iff in Hsw as [H _]. exact H.
  Qed.

  Definition post_b (m : mode) (op : sop) (v : view) : bool :=
    empty_after op v && match k_fin K m with Some 97%N => true | _ => false end.
  Definition done_mode : mode := if k_one K then M_spaceMap else M_valueMap.

  Lemma post_eq c op v :
    post K c op v = COk (if post_b (c_mode c) op v then set_mode c done_mode else c) op (post_b (c_mode c) op v).
  Proof. unfold post, post_b, done_mode. destruct (empty_after op v && _); reflexivity. Qed.

  Ltac split_ifs :=
    repeat match goal with
           | |- context [if ?x then _ else _] =>
               lazymatch x with
               | context [if _ then _ else _] => fail
               | _ => destruct x eqn:?
               end
           end.

  Ltac split_matches :=
    repeat match goal with
           | |- context [match ?x with _ => _ end] =>
               lazymatch x with
               | context [match _ with _ => _ end] => fail
               | _ => destruct x eqn:?
               end
           end.

  Definition cres_rel (r1 r2 : cres) : Prop :=
    match r1, r2 with
    | CErr, CErr => True
    | CFault, CFault => True
    | COk c1 op1 h1, COk c2 op2 h2 =>
        op1 = op2 /\ h1 = h2 /\ norm_c c1 = norm_c c2 /\ c_mode c1 = c_mode c2 /\ next_ok c2 = true
    | _, _ => False
    end.

  Lemma ctl_norm c v b :
    next_ok c = true -> cres_rel (ctl_step K (norm_c c) v b) (ctl_step K c v b).
  Proof.
    intro Hn. pose proof (sw_pre (c_mode c) b) as P.
    destruct c as [m nx ri]. unfold ctl_step, norm_c, next_ok in *. cbn [c_mode c_next c_ri] in *.
    destruct (k_tab K m b) eqn:A; cbn [pre] in P.
    all: destruct m; try discriminate P; cbn [liveS liveU liveL liveN orb negb mode_eqb] in *.
    all: unfold lit_step; rewrite ?post_eq; cbn [c_mode c_next c_ri set_mode set_str set_ri].
    all: try solve [cbn; split_matches; cbn; repeat split; first [reflexivity | exact Hn | exact I]].
    all: try solve [unfold done_mode; destruct (k_one K); cbn; split_matches; cbn; repeat split; first [reflexivity | exact Hn | exact I]].
    all: apply orb_true_iff in Hn as [Hn|Hn]; apply mode_eqb_eq in Hn; subst nx;
      unfold done_mode; destruct (k_one K); cbn; split_matches; cbn; repeat split; reflexivity.
  Qed.
End Scratch.

  Ltac step_split :=
    first [ progress cbn [opt_bind liveS liveN liveU liveL c_mode c_next c_ri d_stack d_starts d_rtmp d_num d_rn d_line d_noff
                          d_pos d_docs d_evs d_fast upd_fast upd_num upd_tmp upd_stack upd_stacks upd_rn upd_nl upd_pos upd_docs
                          push_ev set_mode set_str set_ri andb orb negb fst snd]
          | match goal with
            | |- context [match ?x with _ => _ end] =>
                lazymatch x with
                | context [match _ with _ => _ end] => fail
                | _ => destruct x eqn:?
                end
            end ].

Definition data_norm_stmt (K : cfg) : Prop :=
    forall c v b d,
    next_ok c = true ->
    match ctl_step K c v b with
    | COk c' op ho =>
        option_map (norm_d K (c_mode c')) (data_step K (norm_c c) b ho (norm_d K (c_mode c) d)) =
        option_map (norm_d K (c_mode c')) (data_step K c b ho d)
    | _ => True
    end.

Ltac data_norm_tac K Hsw Hk :=
    intros c v b d Hn;
    pose proof (sw_pre K Hsw (c_mode c) b) as P; pose proof (sw_fin K Hsw (c_mode c)) as Pf;
    destruct c as [m nx ri]; destruct d as [stk sts tmp nm rn ln nf ps dcs evs fst];
    unfold ctl_step, data_step, norm_c, norm_d, next_ok, option_map in *;
    cbn [c_mode c_next c_ri d_stack d_starts d_rtmp d_num d_rn d_line d_noff d_pos d_docs d_evs d_fast] in *;
    unfold handoff, builds, has_num, emit_num, emit_val, num_value, fin_is in *;
    rewrite ?Hk in *; cbv iota in *;
    destruct (k_tab K m b) eqn:A; cbn [pre] in P;
      try match goal with |- context [is_act ?a A_numDigit] =>
        let v := eval vm_compute in (is_act a A_numDigit) in change (is_act a A_numDigit) with v end;
      rewrite ?andb_false_r, ?andb_true_r;
    destruct m; try discriminate P; cbn [liveS liveU liveL liveN orb negb mode_eqb andb] in *;
    rewrite ?andb_false_r, ?andb_true_r;
    unfold lit_step; rewrite ?post_eq; unfold done_mode; destruct (k_one K);
    cbn [c_mode c_next c_ri set_mode set_str set_ri].


Ltac data_norm_finish Hn Pf :=
  first [ solve [repeat match goal with |- context [post_b ?k ?x ?y ?z] => destruct (post_b k x y z) end;
                 repeat step_split; first [reflexivity | exact I | (cbn in Pf; discriminate Pf)]]
        | solve [apply orb_true_iff in Hn as [Hn|Hn]; apply mode_eqb_eq in Hn; subst;
                 repeat match goal with |- context [post_b ?k ?x ?y ?z] => destruct (post_b k x y z) end;
                 repeat step_split; first [reflexivity | exact I | (cbn in Pf; discriminate Pf)]] ].
