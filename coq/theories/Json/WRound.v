(* C04: the reference parser reads the writer's text back as the expected tree. *)
From Coq Require Import Init.Byte NArith ZArith List Bool Lia.
Require Import Ojg.Base.Bytes Ojg.Base.Jv Ojg.Base.Utf8 Ojg.Gen.StrMaps Ojg.Json.Fmt Ojg.Json.Machine Ojg.Json.Ref Ojg.Json.RefParse Ojg.Json.Sweep Ojg.Json.Writer Ojg.Json.WriterFacts Ojg.Json.ValueSim Ojg.Json.TokSim Ojg.Json.EvBuild.
Require Import Ojg.Json.RunEq Ojg.Json.WStr.
Import ListNotations.
Open Scope Z_scope.

Section Out.
  Variable one : bool.
  Notation run := (rprun one false).

  (* what ref_parse makes of a final state *)
  Definition fin (r : option (rmode * list bool * rdata)) : option (list jv) :=
    match r with
    | Some (m, s, d) =>
        if rend m (view_of s) then
          Some (rev (r_docs (if is_num m then add_value d (JBig (rev (r_numt d))) else d)))
        else None
    | None => None
    end.

  Lemma ref_parse_fin w : ref_parse one false w = fin (run RTop [] rdata_init w).
  Proof. unfold ref_parse, fin. destruct (run RTop [] rdata_init w) as [[[m s] d]|]; reflexivity. Qed.

  Lemma fin_cong m s a c w : eqv m a c -> fin (run m s a w) = fin (run m s c w).
  Proof.
    intro H. pose proof (eqv_run one w m s a c H) as HR.
    destruct (run m s a w) as [[[m1 s1] a1]|]; destruct (run m s c w) as [[[m2 s2] c1]|]; try contradiction; [|reflexivity].
    destruct HR as (-> & -> & (Hsf & _ & _ & Hs)). unfold fin.
    destruct (rend m2 (view_of s2)); [|reflexivity].
    destruct (is_num m2) eqn:E.
    - destruct m2; try discriminate E. simpl in Hs. rewrite Hs.
      destruct (sf_add _ _ (JBig (rev (r_numt c1))) Hsf) as [_ Hd]. rewrite Hd. reflexivity.
    - destruct Hsf as [_ Hd]. rewrite Hd. reflexivity.
  Qed.

  Lemma run_app a : forall b m s d,
    run m s d (a ++ b) = match run m s d a with Some (m', s', d') => run m' s' d' b | None => None end.
  Proof.
    induction a as [|x a IH]; intros b m s d; simpl; [reflexivity|].
    destruct (rstep one m (view_of s) x) as [[m' op]|]; [apply IH | reflexivity].
  Qed.
End Out.

Definition dl_byte (b : byte) : bool := is_ws b || beqb b x2c || beqb b x5d || beqb b x7d.
Definition dl (rest : bytes) : Prop := match rest with [] => True | b :: _ => dl_byte b = true end.

Definition vpos (m : rmode) (st : list bool) : Prop :=
  (m = RTop /\ st = []) \/ (m = RVal /\ st <> []) \/ (m = RArr0 /\ exists s', st = false :: s').

Lemma dl_byte_cases b : dl_byte b = true -> b = x20 \/ b = x09 \/ b = x0a \/ b = x0d \/ b = x2c \/ b = x5d \/ b = x7d.
Proof.
  unfold dl_byte, is_ws. intro H.
  repeat (apply orb_true_iff in H as [H|H]); apply beqb_eq in H; subst; tauto.
Qed.

Section Values.
  Variable one : bool.
  Notation run := (rprun one false).


  Definition after (st : list bool) : rmode := after_value one SNone (view_of st).

  (* reading the text t in a value position is reading the value V *)
  Definition VR (t : bytes) (V : jv) : Prop :=
    forall m st d rest, vpos m st -> r_hi d = None -> dl rest ->
      fin (run m st d (t ++ rest)) = fin (run (after st) st (add_value d V) rest).

  Lemma vpos_cases m st : vpos m st ->
    (m = RTop /\ st = []) \/ (m = RVal /\ exists x s', st = x :: s') \/ (m = RArr0 /\ exists s', st = false :: s').
  Proof. intros [H|[[-> H]|H]]; auto. right. left. split; [reflexivity|]. destruct st as [|x s']; [contradiction H; reflexivity|eauto]. Qed.

  Lemma VR_lit l : VR (lit_word l) (lit_val l).
  Proof.
    intros m st d rest Hp Hhi Hdl.
    destruct (vpos_cases m st Hp) as [[-> ->]|[[-> (x & s' & ->)]|[-> (s' & ->)]]]; destruct l; reflexivity.
  Qed.

  Lemma strd_start d : strd (set_str d [] None) [] (r_hex d) = set_str d [] None.
  Proof. reflexivity. Qed.

  Lemma VR_str html s : VR (json_string html s) (JStr (sanitize s)).
  Proof.
    intros m st d rest Hp Hhi Hdl. unfold json_string.
    assert (H1 : run m st d ((x22 :: json_str_body (length s) html s ++ [x22]) ++ rest) =
                 run (RStr false) st (set_str d [] None) (json_str_body (length s) html s ++ x22 :: rest)).
    { rewrite <- app_comm_cons, <- app_assoc.
      destruct (vpos_cases m st Hp) as [[-> ->]|[[-> (x & s' & ->)]|[-> (s' & ->)]]]; reflexivity. }
    rewrite H1. rewrite <- strd_start.
    destruct (body_run one (length s) html s [] (r_hex d) false st (set_str d [] None) (x22 :: rest) (le_n _)) as (hx' & ->).
    fold (sanitize s). change ([] ++ sanitize s) with (sanitize s).
    (* the closing quote *)
    assert (H2 : run (RStr false) st (strd (set_str d [] None) (sanitize s) hx') (x22 :: rest) =
                 run (after st) st (add_value (strd (set_str d [] None) (sanitize s) hx') (JStr (sanitize s))) rest).
    { simpl. unfold rdata_step. simpl. unfold flush_hi. simpl. rewrite app_nil_r, rev_involutive. reflexivity. }
    rewrite H2. apply fin_cong.
    split; [apply sf_add; split; reflexivity|]. rewrite !add_value_hi. simpl.
    split; [reflexivity|]. split; [exact Hhi|]. unfold after, after_value. destruct (empty_after SNone (view_of st)); [destruct one|]; exact I.
  Qed.

  (* ---- numbers *)
  Definition num_ok (t : bytes) : bool :=
    match nb_run t with Some (p, _, _) => num_final p | None => false end.

  Fixpoint phase_run (p : nphase) (t : bytes) : option nphase :=
    match t with
    | [] => Some p
    | b :: t' => match nnext p b with Some p' => phase_run p' t' | None => None end
    end.

  Lemma nb_cont_phase t : forall p n f p' n' f', nb_cont p n f t = Some (p', n', f') -> phase_run p t = Some p'.
  Proof.
    induction t as [|b t IH]; intros p n f p' n' f' H; simpl in *.
    - inversion H; reflexivity.
    - destruct (nnext p b) as [q|]; [|discriminate H]. destruct (nupd p b n f) as [n1 f1]. eapply IH. exact H.
  Qed.

  Lemma num_step p b q v : nnext p b = Some q -> rstep one (RNum p) v b = Some (RNum q, SNone).
  Proof.
    unfold nnext. destruct p; simpl;
      repeat match goal with |- context [if ?x then _ else _] => destruct x end;
      try discriminate; try (intro H; inversion H; reflexivity);
      unfold delim, after_value;
      repeat match goal with |- context [if ?x then _ else _] => destruct x end;
      try discriminate; try (intro H; inversion H; reflexivity).
  Qed.

  Lemma num_run t : forall p q st d rest, phase_run p t = Some q ->
    run (RNum p) st d (t ++ rest) = run (RNum q) st (set_numt d (rev t ++ r_numt d)) rest.
  Proof.
    induction t as [|b t IH]; intros p q st d rest H; simpl in H.
    - inversion H; subst. simpl. destruct d; reflexivity.
    - destruct (nnext p b) as [p1|] eqn:E; [|discriminate H].
      change ((b :: t) ++ rest) with (b :: (t ++ rest)). cbn [rprun]. rewrite (num_step _ _ _ _ E).
      cbn [apply_sop]. rewrite (IH p1 q st _ rest H). unfold rdata_step. simpl.
      f_equal. unfold set_numt. simpl. rewrite <- app_assoc. reflexivity.
  Qed.

  Lemma num_start b p n f m st : nstart b = Some (p, n, f) -> vpos m st ->
    rstep one m (view_of st) b = Some (RNum p, SNone).
  Proof.
    intros H Hp. unfold nstart in H.
    assert (Hb : (beqb b x2d = true /\ p = NNeg) \/ (beqb b x30 = true /\ p = NZero) \/ (is_19 b = true /\ beqb b x2d = false /\ beqb b x30 = false /\ p = NInt)).
    { destruct (beqb b x2d) eqn:E1; [inversion H; auto|]. destruct (beqb b x30) eqn:E2; [inversion H; auto|].
      destruct (is_19 b) eqn:E3; [inversion H; auto 10 | discriminate H]. }
    clear H.
    assert (Hws : is_ws b = false /\ beqb b x5d = false /\ beqb b x22 = false).
    { destruct Hb as [[E _]|[[E _]|[E _]]].
      - apply beqb_eq in E. subst b. auto.
      - apply beqb_eq in E. subst b. auto.
      - unfold is_19 in E. apply andb_true_iff in E as [A B]. apply Z.leb_le in A, B.
        unfold is_ws. repeat split;
          repeat match goal with |- context [beqb b ?c] => let E := fresh in destruct (beqb b c) eqn:E; [apply beqb_eq in E; subst b; vm_compute in A, B; try (exfalso; apply A; reflexivity); try (exfalso; apply B; reflexivity)|] end; reflexivity. }
    destruct Hws as (W1 & W2 & W3).
    destruct (vpos_cases m st Hp) as [[-> ->]|[[-> (x & s' & ->)]|[-> (s' & ->)]]]; simpl; rewrite W1, ?W2; unfold value_start; rewrite W3;
      destruct Hb as [[E ->]|[[E ->]|(E & E1 & E2 & ->)]]; rewrite ?E, ?E1, ?E2;
      try reflexivity;
      try (apply beqb_eq in E; subst b; reflexivity).
  Qed.

  Lemma num_delim p v b : num_final p = true -> dl_byte b = true -> rstep one (RNum p) v b = delim one v b.
  Proof.
    intros Hf Hb. destruct (dl_byte_cases b Hb) as [->|[->|[->|[->|[->|[->| ->]]]]]]; destruct p; try discriminate Hf; reflexivity.
  Qed.

  Lemma after_delim st b : dl_byte b = true -> rstep one (after st) (view_of st) b = delim one (view_of st) b.
  Proof.
    intro Hb. unfold after, after_value.
    destruct (dl_byte_cases b Hb) as [->|[->|[->|[->|[->|[->| ->]]]]]];
      destruct st as [|x [|y st]]; simpl; try reflexivity; destruct one; reflexivity.
  Qed.

  Lemma delim_struct v b m' op : delim one v b = Some (m', op) -> structural m' = true.
  Proof.
    unfold delim, after_value. intro H.
    repeat match type of H with
           | context [if ?x then _ else _] => destruct x
           | context [match vtop ?v with _ => _ end] => destruct (vtop v) as [[|]|]
           end; try discriminate H; inversion H; reflexivity.
  Qed.

  Lemma op_sf op a c : same_fd a c ->
    same_fd (match op with
             | SPush true => set_frames a (FObj [] None :: r_frames a)
             | SPush false => set_frames a (FArr [] :: r_frames a)
             | SPop => close_top a
             | SNone => a end)
            (match op with
             | SPush true => set_frames c (FObj [] None :: r_frames c)
             | SPush false => set_frames c (FArr [] :: r_frames c)
             | SPop => close_top c
             | SNone => c end).
  Proof.
    intro H. destruct op as [|[|]|]; simpl; try exact H; try (apply sf_close; exact H);
      destruct H as [Hf Hd]; split; simpl; [rewrite Hf; reflexivity | exact Hd | rewrite Hf; reflexivity | exact Hd].
  Qed.

  Lemma structural_eqv m a c : structural m = true -> same_fd a c -> r_hi a = None -> r_hi c = None -> eqv m a c.
  Proof. intros Hs H1 H2 H3. split; [exact H1|]. split; [exact H2|]. split; [exact H3|]. destruct m; try discriminate Hs; exact I. Qed.

  Lemma VR_num t : num_ok t = true -> VR t (JBig t).
  Proof.
    intros Hok m st d rest Hp Hhi Hdl. unfold num_ok in Hok.
    destruct t as [|b t']; [discriminate Hok|]. simpl in Hok.
    destruct (nstart b) as [[[p0 n0] f0]|] eqn:Hs; [|discriminate Hok].
    destruct (nb_cont p0 n0 f0 t') as [[[p n] f]|] eqn:Hc; [|discriminate Hok].
    pose proof (nb_cont_phase _ _ _ _ _ _ _ Hc) as Hph.
    (* the literal itself *)
    assert (H1 : run m st d ((b :: t') ++ rest) = run (RNum p) st (set_numt d (rev (b :: t'))) rest).
    { change ((b :: t') ++ rest) with (b :: (t' ++ rest)). cbn [rprun]. rewrite (num_start _ _ _ _ _ _ Hs Hp). cbn [apply_sop].
      rewrite (num_run t' p0 p st _ rest Hph).
      f_equal. destruct (vpos_cases m st Hp) as [[-> ->]|[[-> (x & s' & ->)]|[-> (s' & ->)]]];
        unfold rdata_step, set_numt; simpl; try rewrite <- app_assoc; reflexivity. }
    rewrite H1. clear H1.
    set (dn := set_numt d (rev (b :: t'))).
    assert (Hsf : same_fd (add_value (set_numt dn []) (JBig (b :: t'))) (add_value d (JBig (b :: t')))).
    { apply sf_add. split; reflexivity. }
    destruct rest as [|b' rest'].
    - (* end of input *)
      cbn [rprun]. unfold fin.
      destruct st as [|x [|y st']].
      + change (view_of []) with VEmpty. cbn [rend]. rewrite Hok. cbn [is_num].
        unfold dn at 2. cbn [r_numt set_numt]. rewrite rev_involutive.
        destruct (sf_add dn d (JBig (b :: t')) (conj eq_refl eq_refl)) as [_ Hd]. rewrite Hd.
        unfold after, after_value. simpl. destruct one; reflexivity.
      + unfold after, after_value. simpl. destruct x; reflexivity.
      + unfold after, after_value. simpl. destruct x; reflexivity.
    - (* a delimiter follows *)
      simpl in Hdl. cbn [rprun]. rewrite (num_delim _ _ _ Hok Hdl), (after_delim st b' Hdl).
      destruct (delim one (view_of st) b') as [[m'' op]|] eqn:Hd; [|reflexivity].
      pose proof (delim_struct _ _ _ _ Hd) as Hst.
      apply fin_cong. apply structural_eqv; [exact Hst| |apply rdata_step_hi; exact Hhi|apply rdata_step_hi; rewrite add_value_hi; exact Hhi].
      unfold rdata_step. cbv zeta.
      assert (Hn : is_num m'' = false) by (destruct m''; try discriminate Hst; reflexivity).
      simpl (is_num (RNum p)). rewrite Hn. simpl andb. cbv iota.
      assert (Ha : is_num (after st) = false) by (unfold after, after_value; destruct (empty_after SNone (view_of st)); [destruct one|]; reflexivity).
      rewrite Ha. simpl andb. cbv iota.
      change (r_numt dn) with (rev (b :: t')). rewrite rev_involutive.
      unfold after, after_value in *; destruct (empty_after SNone (view_of st)); [destruct one|];
        (destruct m''; try discriminate Hst); cbv iota; apply op_sf; exact Hsf.
  Qed.

  (* ---- whitespace and separators *)
  Definition wsl (bs : bytes) : Prop := Forall (fun b => is_ws b = true) bs.

  Definition skips_ws (m : rmode) (st : list bool) : Prop :=
    m = RArr0 \/ m = RVal \/ m = RObj0 \/ m = RKeyReq \/ m = RColon \/ (m = RAfter /\ st <> []).

  Lemma ws_run bs : forall m st d rest, wsl bs -> skips_ws m st ->
    run m st d (bs ++ rest) = run m st d rest.
  Proof.
    induction bs as [|b bs IH]; intros m st d rest H Hm; [reflexivity|].
    inversion H; subst. change ((b :: bs) ++ rest) with (b :: (bs ++ rest)). cbn [rprun].
    assert (E : rstep one m (view_of st) b = Some (m, SNone) /\ rdata_step false m m SNone b d = d).
    { destruct Hm as [->|[->|[->|[->|[->|[-> Hne]]]]]]; simpl; rewrite ?H2; try (split; reflexivity).
      unfold delim. rewrite H2. unfold after_value.
      destruct st as [|x [|y st]]; [contradiction Hne; reflexivity| |]; simpl; split; reflexivity. }
    destruct E as [-> ->]. cbn [apply_sop]. apply IH; assumption.
  Qed.

  Lemma add_value_arr d items F v :
    r_frames d = FArr items :: F -> r_frames (add_value d v) = FArr (v :: items) :: F /\ r_docs (add_value d v) = r_docs d.
  Proof. destruct d as [fs sx hx hi nt docs]. simpl. intros ->. simpl. auto. Qed.
End Values.

Section Tree.
  Variable one : bool.
  Variable o : wopts.
  Notation run := (rprun one false).

  (* the tree the reference parser makes of the written text: numbers as their text, strings
     sanitized, omitted members gone, members that collide after sanitizing merged as a parser
     merges duplicates *)
  Fixpoint toref (v : jv) : jv :=
    match v with
    | JInt z => JBig (format_int z)
    | JFloat t => JBig t
    | JStr s => JStr (sanitize s)
    | JArr l => JArr (map toref l)
    | JObj m => JObj ((fix go (m : list (bytes * jv)) (acc : list (bytes * jv)) : list (bytes * jv) :=
                         match m with
                         | [] => acc
                         | (k, x) :: m' => go m' (if omitted o x then acc else map_set (sanitize k) (toref x) acc)
                         end) m [])
    | _ => v
    end.

  (* number texts in the tree are JSON numbers *)
  Fixpoint wf (v : jv) : bool :=
    match v with
    | JInt z => num_ok (format_int z)
    | JFloat t | JBig t => num_ok t
    | JArr l => forallb wf l
    | JObj m => (fix go (m : list (bytes * jv)) : bool :=
                   match m with [] => true | (_, x) :: m' => wf x && go m' end) m
    | _ => true
    end.

  Lemma wsl_repeat u n : is_ws u = true -> wsl (repeat u n).
  Proof. intro H. induction n; simpl; constructor; assumption. Qed.
  Lemma unit_ws : is_ws (indent_unit o) = true.
  Proof. unfold indent_unit. destruct (w_tab o); reflexivity. Qed.
  Lemma wsl_cs depth : wsl (cs_str o depth).
  Proof. unfold cs_str. constructor; [reflexivity | apply wsl_repeat, unit_ws]. Qed.
  Lemma wsl_is depth : wsl (is_str o depth).
  Proof. unfold is_str. apply wsl_repeat, unit_ws. Qed.
  Lemma wsl_elem_prefix depth : wsl (elem_prefix o depth).
  Proof. unfold elem_prefix. destruct (indented o); [apply wsl_cs | constructor]. Qed.

  Lemma pop_after x st : after_value one SPop (view_of (x :: st)) = after one st.
  Proof. unfold after, after_value. destruct st as [|y [|z st]]; reflexivity. Qed.

  Lemma dl_close depth c rest : c = x5d \/ c = x7d -> dl (close_with o depth c ++ rest).
  Proof. intro H. unfold close_with. destruct (indented o); simpl; [reflexivity|]. destruct H as [-> | ->]; reflexivity. Qed.

  (* closing an array frame from the position after its last element *)
  Lemma close_arr_run depth st d items F rest :
    r_frames d = FArr items :: F ->
    run RAfter (false :: st) d (close_with o depth x5d ++ rest) =
    run (after one st) st (add_value (set_frames d F) (JArr (rev items))) rest.
  Proof.
    intro Hf.
    assert (Hstep : run RAfter (false :: st) d (x5d :: rest) = run (after one st) st (add_value (set_frames d F) (JArr (rev items))) rest).
    { cbn [rprun]. assert (E : rstep one RAfter (view_of (false :: st)) x5d = Some (after_value one SPop (view_of (false :: st)), SPop)).
      { simpl. unfold delim. simpl. destruct st; reflexivity. }
      rewrite E. rewrite pop_after. cbn [apply_sop]. f_equal.
      unfold rdata_step. simpl. assert (Hm : forall X : rdata, match after one st with RStr _ => X | _ => X end = X) by (intro; destruct (after one st); reflexivity).
      unfold after, after_value. destruct (empty_after SNone (view_of st)); [destruct one|]; simpl; unfold close_top; rewrite Hf; reflexivity. }
    unfold close_with. destruct (indented o).
    - rewrite <- app_comm_cons, <- app_assoc. simpl ([x5d] ++ rest).
      change (x0a :: is_str o depth ++ x5d :: rest) with ((x0a :: is_str o depth) ++ x5d :: rest).
      rewrite (ws_run one (x0a :: is_str o depth) RAfter (false :: st) d (x5d :: rest)).
      + exact Hstep.
      + constructor; [reflexivity | apply wsl_is].
      + right. right. right. right. right. split; [reflexivity | discriminate].
    - exact Hstep.
  Qed.

  Fixpoint elems (depth : Z) (l : list jv) : bytes :=
    match l with
    | [] => []
    | x :: l' =>
        elem_prefix o depth ++ text o (sub_depth o depth) x ++
        match l' with [] => [] | _ => x2c :: elems depth l' end
    end.

  Definition PV (x : jv) : Prop := forall dp, VR one (text o dp x) (toref x).

  Lemma set_frames_add d items F v : r_frames d = FArr items :: F -> set_frames (add_value d v) F = set_frames d F.
  Proof. destruct d as [fs sx hx hi nt docs]. simpl. intros ->. reflexivity. Qed.

  Lemma comma_arr st d rest :
    run RAfter (false :: st) d (x2c :: rest) = run RVal (false :: st) d rest.
  Proof. cbn [rprun]. assert (E : rstep one RAfter (view_of (false :: st)) x2c = Some (RVal, SNone)) by (simpl; unfold delim; simpl; destruct st; reflexivity).
    rewrite E. reflexivity. Qed.

  Lemma after_cons x st : after one (x :: st) = RAfter.
  Proof. unfold after, after_value. destruct st; reflexivity. Qed.

  Lemma arr_tail l : Forall PV l -> l <> [] -> forall depth m st d items F rest,
    (m = RArr0 \/ m = RVal) -> r_hi d = None -> r_frames d = FArr items :: F ->
    fin (run m (false :: st) d (elems depth l ++ close_with o depth x5d ++ rest)) =
    fin (run (after one st) st (add_value (set_frames d F) (JArr (rev (rev (map toref l) ++ items)))) rest).
  Proof.
    induction l as [|x l IH]; intros HP Hne depth m st d items F rest Hm Hhi Hf; [contradiction Hne; reflexivity|].
    inversion HP as [|? ? Hx HP']; subst.
    assert (Hvp : vpos m (false :: st)).
    { destruct Hm as [-> | ->]; [right; right; split; [reflexivity | eauto] | right; left; split; [reflexivity | discriminate]]. }
    assert (Hsk : skips_ws m (false :: st)) by (destruct Hm as [-> | ->]; [left | right; left]; reflexivity).
    cbn [elems]. rewrite <- !app_assoc.
    rewrite (ws_run one (elem_prefix o depth) m (false :: st) d _ (wsl_elem_prefix depth) Hsk).
    destruct (add_value_arr d items F (toref x) Hf) as [Hf' Hd'].
    destruct l as [|y l'].
    - (* the last element *)
      change ([] ++ close_with o depth x5d ++ rest) with (close_with o depth x5d ++ rest).
      rewrite (Hx (sub_depth o depth) m (false :: st) d _ Hvp Hhi (dl_close depth x5d rest (or_introl eq_refl))).
      rewrite after_cons.
      rewrite (close_arr_run depth st _ (toref x :: items) F rest Hf').
      rewrite (set_frames_add d items F (toref x) Hf). reflexivity.
    - (* more follow *)
      rewrite <- app_comm_cons.
      rewrite (Hx (sub_depth o depth) m (false :: st) d (x2c :: _) Hvp Hhi eq_refl).
      rewrite after_cons.
      rewrite comma_arr.
      rewrite (IH HP' ltac:(discriminate) depth RVal st _ (toref x :: items) F rest (or_intror eq_refl)); [|rewrite add_value_hi; exact Hhi|exact Hf'].
      rewrite (set_frames_add d items F (toref x) Hf).
      change (map toref (x :: y :: l')) with (toref x :: map toref (y :: l')). cbn [rev].
      rewrite <- app_assoc. reflexivity.
  Qed.

  Definition goA (depth : Z) : list jv -> bytes :=
    fix go (l : list jv) : bytes :=
      match l with
      | [] => []
      | x :: l' => elem_prefix o depth ++ text o (sub_depth o depth) x ++ x2c :: go l'
      end.

  Lemma goA_nonempty depth x l : goA depth (x :: l) <> [].
  Proof. simpl. destruct (elem_prefix o depth); [|discriminate]. simpl. destruct (text o (sub_depth o depth) x); discriminate. Qed.

  Lemma removelast_goA depth l : removelast (goA depth l) = elems depth l.
  Proof.
    induction l as [|x l IH]; [reflexivity|].
    change (goA depth (x :: l)) with (elem_prefix o depth ++ text o (sub_depth o depth) x ++ x2c :: goA depth l).
    rewrite removelast_app by (destruct (text o (sub_depth o depth) x); discriminate).
    rewrite removelast_app by discriminate.
    cbn [elems]. f_equal. f_equal.
    destruct l as [|y l'].
    - reflexivity.
    - change (x2c :: goA depth (y :: l')) with ([x2c] ++ goA depth (y :: l')).
      rewrite removelast_app by apply goA_nonempty. rewrite IH. reflexivity.
  Qed.

  Lemma text_arr depth x l :
    text o depth (JArr (x :: l)) = x5b :: elems depth (x :: l) ++ close_with o depth x5d.
  Proof.
    change (text o depth (JArr (x :: l))) with (x5b :: removelast (goA depth (x :: l)) ++ close_with o depth x5d).
    rewrite removelast_goA. reflexivity.
  Qed.

  Lemma open_arr_run m st d rest : vpos m st ->
    run m st d (x5b :: rest) = run RArr0 (false :: st) (set_frames d (FArr [] :: r_frames d)) rest.
  Proof.
    intro Hp. destruct (vpos_cases m st Hp) as [[-> ->]|[[-> (x & s' & ->)]|[-> (s' & ->)]]]; reflexivity.
  Qed.

  Lemma VR_arr l : Forall PV l -> forall depth, VR one (text o depth (JArr l)) (toref (JArr l)).
  Proof.
    intros HP depth m st d rest Hp Hhi Hdl.
    destruct l as [|x l].
    - (* [] *)
      change (text o depth (JArr [])) with [x5b; x5d]. change ([x5b; x5d] ++ rest) with (x5b :: x5d :: rest).
      rewrite (open_arr_run m st d _ Hp).
      assert (E : run RArr0 (false :: st) (set_frames d (FArr [] :: r_frames d)) (x5d :: rest) =
                  run (after one st) st (add_value d (JArr [])) rest).
      { cbn [rprun]. assert (E1 : rstep one RArr0 (view_of (false :: st)) x5d = Some (after_value one SPop (view_of (false :: st)), SPop)) by reflexivity.
        rewrite E1, pop_after. cbn [apply_sop]. f_equal.
        unfold rdata_step. simpl. unfold after, after_value. destruct (empty_after SNone (view_of st)); [destruct one|]; simpl; unfold close_top; simpl; destruct d; reflexivity. }
      rewrite E. reflexivity.
    - rewrite text_arr. rewrite <- app_comm_cons. rewrite (open_arr_run m st d _ Hp). rewrite <- app_assoc.
      rewrite (arr_tail (x :: l) HP ltac:(discriminate) depth RArr0 st (set_frames d (FArr [] :: r_frames d)) [] (r_frames d) rest (or_introl eq_refl) Hhi eq_refl).
      rewrite app_nil_r, rev_involutive.
      apply fin_cong. apply structural_eqv.
      + unfold after, after_value. destruct (empty_after SNone (view_of st)); [destruct one|]; reflexivity.
      + apply sf_add. split; reflexivity.
      + rewrite add_value_hi. exact Hhi.
      + rewrite add_value_hi. exact Hhi.
  Qed.

  (* ---- objects *)
  Lemma open_obj_run m st d rest : vpos m st ->
    run m st d (x7b :: rest) = run RObj0 (true :: st) (set_frames d (FObj [] None :: r_frames d)) rest.
  Proof.
    intro Hp. destruct (vpos_cases m st Hp) as [[-> ->]|[[-> (x & s' & ->)]|[-> (s' & ->)]]]; reflexivity.
  Qed.

  Lemma comma_obj st d rest :
    run RAfter (true :: st) d (x2c :: rest) = run RKeyReq (true :: st) d rest.
  Proof. cbn [rprun]. assert (E : rstep one RAfter (view_of (true :: st)) x2c = Some (RKeyReq, SNone)) by (simpl; unfold delim; simpl; destruct st; reflexivity).
    rewrite E. reflexivity. Qed.

  Lemma colon_run st d rest : run RColon st d (x3a :: rest) = run RVal st d rest.
  Proof. reflexivity. Qed.

  Lemma close_obj_run depth st d mm pend F rest :
    r_frames d = FObj mm pend :: F ->
    run RAfter (true :: st) d (close_with o depth x7d ++ rest) =
    run (after one st) st (add_value (set_frames d F) (JObj mm)) rest.
  Proof.
    intro Hf.
    assert (Hstep : run RAfter (true :: st) d (x7d :: rest) = run (after one st) st (add_value (set_frames d F) (JObj mm)) rest).
    { cbn [rprun]. assert (E : rstep one RAfter (view_of (true :: st)) x7d = Some (after_value one SPop (view_of (true :: st)), SPop)).
      { simpl. unfold delim. simpl. destruct st; reflexivity. }
      rewrite E. rewrite pop_after. cbn [apply_sop]. f_equal.
      unfold rdata_step. simpl.
      unfold after, after_value. destruct (empty_after SNone (view_of st)); [destruct one|]; simpl; unfold close_top; rewrite Hf; reflexivity. }
    unfold close_with. destruct (indented o).
    - rewrite <- app_comm_cons, <- app_assoc. simpl ([x7d] ++ rest).
      change (x0a :: is_str o depth ++ x7d :: rest) with ((x0a :: is_str o depth) ++ x7d :: rest).
      rewrite (ws_run one (x0a :: is_str o depth) RAfter (true :: st) d (x7d :: rest)).
      + exact Hstep.
      + constructor; [reflexivity | apply wsl_is].
      + right. right. right. right. right. split; [reflexivity | discriminate].
    - exact Hstep.
  Qed.

  (* a member name *)
  Lemma key_run m st d mm pend F html k rest :
    (m = RObj0 \/ m = RKeyReq) -> r_hi d = None -> r_frames d = FObj mm pend :: F ->
    fin (run m (true :: st) d (json_string html k ++ rest)) =
    fin (run RColon (true :: st) (set_frames d (FObj mm (Some (sanitize k)) :: F)) rest).
  Proof.
    intros Hm Hhi Hf. unfold json_string.
    assert (H1 : run m (true :: st) d ((x22 :: json_str_body (length k) html k ++ [x22]) ++ rest) =
                 run (RStr true) (true :: st) (set_str d [] None) (json_str_body (length k) html k ++ x22 :: rest)).
    { rewrite <- app_comm_cons, <- app_assoc. destruct Hm as [-> | ->]; reflexivity. }
    rewrite H1. rewrite <- strd_start.
    destruct (body_run one (length k) html k [] (r_hex d) true (true :: st) (set_str d [] None) (x22 :: rest) (le_n _)) as (hx' & ->).
    fold (sanitize k). change ([] ++ sanitize k) with (sanitize k).
    assert (H2 : run (RStr true) (true :: st) (strd (set_str d [] None) (sanitize k) hx') (x22 :: rest) =
                 run RColon (true :: st) (set_frames (strd (set_str d [] None) (sanitize k) hx') (FObj mm (Some (sanitize k)) :: F)) rest).
    { cbn [rprun]. cbn [rstep]. simpl (beqb x22 x22). cbv iota. cbn [apply_sop]. f_equal.
      unfold rdata_step. simpl. unfold flush_hi. simpl. rewrite Hf. rewrite app_nil_r, rev_involutive. reflexivity. }
    rewrite H2. apply fin_cong. apply structural_eqv; [reflexivity | split; reflexivity | reflexivity | exact Hhi].
  Qed.

  Fixpoint membs (depth : Z) (l : list (bytes * jv)) : bytes :=
    match l with
    | [] => []
    | (k, x) :: l' =>
        member_prefix o depth k ++ text o (sub_depth o depth) x ++
        match l' with [] => [] | _ => x2c :: membs depth l' end
    end.

  Definition mfold (l : list (bytes * jv)) (mm : list (bytes * jv)) : list (bytes * jv) :=
    fold_left (fun acc kv => map_set (sanitize (fst kv)) (toref (snd kv)) acc) l mm.

  Lemma add_value_obj d mm k F v :
    r_frames d = FObj mm (Some k) :: F ->
    r_frames (add_value d v) = FObj (map_set k v mm) None :: F /\ set_frames (add_value d v) F = set_frames d F.
  Proof. destruct d as [fs sx hx hi nt docs]. simpl. intros ->. simpl. auto. Qed.

  Lemma obj_tail l : Forall (fun kv => PV (snd kv)) l -> l <> [] -> forall depth m st d mm F rest,
    (m = RObj0 \/ m = RKeyReq) -> r_hi d = None -> r_frames d = FObj mm None :: F ->
    fin (run m (true :: st) d (membs depth l ++ close_with o depth x7d ++ rest)) =
    fin (run (after one st) st (add_value (set_frames d F) (JObj (mfold l mm))) rest).
  Proof.
    induction l as [|[k x] l IH]; intros HP Hne depth m st d mm F rest Hm Hhi Hf; [contradiction Hne; reflexivity|].
    inversion HP as [|? ? Hx HP']; subst. simpl in Hx.
    assert (Hsk : skips_ws m (true :: st)) by (destruct Hm as [-> | ->]; [right; right; left | right; right; right; left]; reflexivity).
    cbn [membs]. unfold member_prefix. rewrite <- !app_assoc.
    (* indentation, the name, the colon *)
    assert (Hpre : wsl (if indented o then cs_str o depth else [])) by (destruct (indented o); [apply wsl_cs | constructor]).
    rewrite (ws_run one _ m (true :: st) d _ Hpre Hsk).
    rewrite (key_run m st d mm None F (w_html_safe o) k _ Hm Hhi Hf).
    set (d1 := set_frames d (FObj mm (Some (sanitize k)) :: F)).
    assert (Hcolon : forall R, run RColon (true :: st) d1 ((if indented o then [x3a; x20] else [x3a]) ++ R) = run RVal (true :: st) d1 R).
    { intro R. destruct (indented o).
      - change ([x3a; x20] ++ R) with (x3a :: ([x20] ++ R)). rewrite colon_run.
        apply (ws_run one [x20] RVal (true :: st) d1 R); [repeat constructor | right; left; reflexivity].
      - apply colon_run. }
    rewrite Hcolon.
    assert (Hvp : vpos RVal (true :: st)) by (right; left; split; [reflexivity | discriminate]).
    assert (Hf1 : r_frames d1 = FObj mm (Some (sanitize k)) :: F) by reflexivity.
    destruct (add_value_obj d1 mm (sanitize k) F (toref x) Hf1) as [Hf' Hsf'].
    destruct l as [|[k2 x2] l'].
    - change ([] ++ close_with o depth x7d ++ rest) with (close_with o depth x7d ++ rest).
      rewrite (Hx (sub_depth o depth) RVal (true :: st) d1 _ Hvp Hhi (dl_close depth x7d rest (or_intror eq_refl))).
      rewrite after_cons.
      rewrite (close_obj_run depth st _ _ None F rest Hf').
      rewrite Hsf'. reflexivity.
    - rewrite <- app_comm_cons.
      rewrite (Hx (sub_depth o depth) RVal (true :: st) d1 (x2c :: _) Hvp Hhi eq_refl).
      rewrite after_cons. rewrite comma_obj.
      rewrite (IH HP' ltac:(discriminate) depth RKeyReq st (add_value d1 (toref x)) (map_set (sanitize k) (toref x) mm) F rest (or_intror eq_refl)); [|rewrite add_value_hi; exact Hhi|exact Hf'].
      rewrite Hsf'. reflexivity.
  Qed.

  Definition kept (m : list (bytes * jv)) : list (bytes * jv) := filter (fun kv => negb (omitted o (snd kv))) m.

  Definition goK (depth : Z) : list (bytes * jv) -> bytes :=
    fix go (m : list (bytes * jv)) : bytes :=
      match m with
      | [] => []
      | (k, x) :: m' => member_prefix o depth k ++ text o (sub_depth o depth) x ++ x2c :: go m'
      end.

  Definition goO (depth : Z) : list (bytes * jv) -> bytes :=
    fix go (m : list (bytes * jv)) : bytes :=
      match m with
      | [] => []
      | (k, x) :: m' =>
          if omitted o x then go m'
          else member_prefix o depth k ++ text o (sub_depth o depth) x ++ x2c :: go m'
      end.

  Lemma goO_kept depth m : goO depth m = goK depth (kept m).
  Proof.
    induction m as [|[k x] m IH]; [reflexivity|]. simpl. destruct (omitted o x); simpl; [exact IH | rewrite IH; reflexivity].
  Qed.

  Lemma member_prefix_nonempty depth k : member_prefix o depth k <> [].
  Proof. unfold member_prefix, json_string. destruct (indented o); simpl; [unfold cs_str; discriminate | discriminate]. Qed.

  Lemma goK_nonempty depth kv l : goK depth (kv :: l) <> [].
  Proof. destruct kv as [k x]. simpl. pose proof (member_prefix_nonempty depth k). destruct (member_prefix o depth k); [contradiction | discriminate]. Qed.

  Lemma removelast_goK depth l : removelast (goK depth l) = membs depth l.
  Proof.
    induction l as [|[k x] l IH]; [reflexivity|].
    change (goK depth ((k, x) :: l)) with (member_prefix o depth k ++ text o (sub_depth o depth) x ++ x2c :: goK depth l).
    rewrite removelast_app by (destruct (text o (sub_depth o depth) x); discriminate).
    rewrite removelast_app by discriminate.
    cbn [membs]. f_equal. f_equal.
    destruct l as [|kv l'].
    - reflexivity.
    - change (x2c :: goK depth (kv :: l')) with ([x2c] ++ goK depth (kv :: l')).
      rewrite removelast_app by apply goK_nonempty. rewrite IH. reflexivity.
  Qed.

  Lemma text_obj depth m :
    text o depth (JObj m) = match kept m with
                            | [] => [x7b; x7d]
                            | _ => x7b :: membs depth (kept m) ++ close_with o depth x7d
                            end.
  Proof.
    change (text o depth (JObj m)) with (match goO depth m with [] => [x7b; x7d] | _ => x7b :: removelast (goO depth m) ++ close_with o depth x7d end).
    rewrite goO_kept. destruct (kept m) as [|kv l] eqn:E; [reflexivity|].
    pose proof (goK_nonempty depth kv l) as Hne. destruct (goK depth (kv :: l)) eqn:G; [contradiction Hne; reflexivity|].
    rewrite <- G. rewrite removelast_goK. reflexivity.
  Qed.

  Lemma toref_obj m : toref (JObj m) = JObj (mfold (kept m) []).
  Proof.
    change (toref (JObj m)) with (JObj ((fix go (m : list (bytes * jv)) (acc : list (bytes * jv)) : list (bytes * jv) :=
                         match m with
                         | [] => acc
                         | (k, x) :: m' => go m' (if omitted o x then acc else map_set (sanitize k) (toref x) acc)
                         end) m [])).
    f_equal. generalize (@nil (bytes * jv)) as acc.
    induction m as [|[k x] m IH]; intro acc; [reflexivity|].
    simpl. destruct (omitted o x); simpl; apply IH.
  Qed.

  Lemma VR_obj m : Forall (fun kv => PV (snd kv)) m -> forall depth, VR one (text o depth (JObj m)) (toref (JObj m)).
  Proof.
    intros HP depth mo st d rest Hp Hhi Hdl.
    rewrite text_obj, toref_obj.
    assert (HPk : Forall (fun kv => PV (snd kv)) (kept m)).
    { unfold kept. rewrite Forall_forall in *. intros kv Hin. apply filter_In in Hin as [Hin _]. apply HP. exact Hin. }
    destruct (kept m) as [|kv l] eqn:E.
    - change ([x7b; x7d] ++ rest) with (x7b :: x7d :: rest).
      rewrite (open_obj_run mo st d _ Hp).
      assert (E1 : run RObj0 (true :: st) (set_frames d (FObj [] None :: r_frames d)) (x7d :: rest) =
                   run (after one st) st (add_value d (JObj [])) rest).
      { cbn [rprun]. assert (E2 : rstep one RObj0 (view_of (true :: st)) x7d = Some (after_value one SPop (view_of (true :: st)), SPop)) by reflexivity.
        rewrite E2, pop_after. cbn [apply_sop]. f_equal.
        unfold rdata_step. simpl. unfold after, after_value. destruct (empty_after SNone (view_of st)); [destruct one|]; simpl; unfold close_top; simpl; destruct d; reflexivity. }
      rewrite E1. reflexivity.
    - rewrite <- app_comm_cons. rewrite (open_obj_run mo st d _ Hp). rewrite <- app_assoc.
      rewrite (obj_tail (kv :: l) HPk ltac:(discriminate) depth RObj0 st (set_frames d (FObj [] None :: r_frames d)) [] (r_frames d) rest (or_introl eq_refl) Hhi eq_refl).
      apply fin_cong. apply structural_eqv.
      + unfold after, after_value. destruct (empty_after SNone (view_of st)); [destruct one|]; reflexivity.
      + apply sf_add. split; reflexivity.
      + rewrite add_value_hi. exact Hhi.
      + rewrite add_value_hi. exact Hhi.
  Qed.

  (* ---- every well-formed tree *)
  Theorem all_PV : forall v, wf v = true -> PV v.
  Proof.
    induction v using jv_ind2; intros Hwf dp.
    - apply (VR_lit one LNull).
    - destruct b; [apply (VR_lit one LTrue) | apply (VR_lit one LFalse)].
    - apply VR_num. exact Hwf.
    - apply VR_num. exact Hwf.
    - apply VR_num. exact Hwf.
    - apply VR_str.
    - apply VR_arr. simpl in Hwf. rewrite forallb_forall in Hwf. rewrite Forall_forall in *. intros x Hin. apply H; [exact Hin | apply Hwf; exact Hin].
    - apply VR_obj. simpl in Hwf.
      induction m as [|[k x] m IHm]; [constructor|].
      apply andb_true_iff in Hwf as [Hx Hm]. inversion H; subst. constructor; [simpl in *; auto | apply IHm; assumption].
  Qed.

  Theorem text_round_trip v : wf v = true -> ref_parse one false (text o 0 v) = Some [toref v].
  Proof.
    intro Hwf. rewrite ref_parse_fin.
    pose proof (all_PV v Hwf 0 RTop [] rdata_init [] (or_introl (conj eq_refl eq_refl)) eq_refl I) as H.
    rewrite app_nil_r in H. rewrite H. unfold after, after_value. simpl. destruct one; reflexivity.
  Qed.
End Tree.
