(* Text forms of model outcomes for the correspondence harness, and the case dispatcher
   that the extracted driver calls. *)
From Coq Require Import Init.Byte NArith ZArith List Bool.
Require Import Ojg.Base.Bytes Ojg.Base.Jv Ojg.Gen.OjMaps Ojg.Json.Machine Ojg.Json.Ref Ojg.Json.RefParse Ojg.Json.Frontends.
Import ListNotations.
Open Scope Z_scope.

Definition show_ev (e : ev) : bytes :=
  match e with
  | ENull => [x6e]
  | EBool true => [x74]
  | EBool false => [x66]
  | EInt z => x69 :: format_int z
  | EFloat t => x64 :: t
  | ENumber t => x62 :: t
  | EString s => x73 :: hex_of_bytes s
  | EKey s => x6b :: hex_of_bytes s
  | EObjStart => [x7b]
  | EObjEnd => [x7d]
  | EArrStart => [x5b]
  | EArrEnd => [x5d]
  end.

Fixpoint join_sp (l : list bytes) : bytes :=
  match l with
  | [] => []
  | [a] => a
  | a :: l' => a ++ x20 :: join_sp l'
  end.

Definition show_outcome (o : outcome) : bytes :=
  match o with
  | OErr l c => x45 :: x20 :: format_int l ++ x20 :: format_int c
  | OErrOther => [x58]
  | OFault => [x46]
  | OOk docs evs => x4f :: x20 :: join_sp (map (fun v => show (canon v)) docs) ++ x20 :: x7c :: x20 :: join_sp (map show_ev evs)
  end.

Definition fe_of_code (n : Z) : cfg :=
  if n =? 0 then fe_parser else if n =? 1 then fe_validator else if n =? 2 then fe_tokenizer
  else if n =? 3 then fe_gen else if n =? 4 then fe_parser_multi else if n =? 5 then fe_validator_multi
  else if n =? 6 then fe_tokenizer_multi else fe_gen_multi.

Definition model_parse (fe : Z) (w : bytes) : bytes := show_outcome (parse_bytes (fe_of_code fe) w).
Definition model_parse_chunks (fe : Z) (cs : list bytes) : bytes := show_outcome (parse_chunks (fe_of_code fe) cs).

(* specification-side acceptance: BOM stripped as the property says (a BOM in front of the text) *)
Definition strip_bom (w : bytes) : bytes :=
  match w with
  | b0 :: b1 :: b2 :: r => if beqb b0 xef && beqb b1 xbb && beqb b2 xbf then r else w
  | _ => w
  end.
Definition spec_accepts (one : bool) (w : bytes) : bool := ref_accepts one (strip_bom w).

(* specification-side parse: "R" = not a JSON text, else the documents (numbers as b<literal>) *)
Definition spec_parse (one pairs : bool) (w : bytes) : bytes :=
  match ref_parse one pairs (strip_bom w) with
  | None => [x52]
  | Some docs => x4f :: x20 :: join_sp (map (fun v => show (canon v)) docs)
  end.

Require Import Ojg.Json.Writer.
Open Scope Z_scope.

(* writer options as a bit mask: 1 tab, 2 sort, 4 omitnil, 8 omitempty, 16 html-safe *)
Definition wopts_of (indent mask : Z) : wopts :=
  mkW indent (Z.testbit mask 0) (Z.testbit mask 1) (Z.testbit mask 2) (Z.testbit mask 3) (Z.testbit mask 4).

(* numbers in a written text come back as the parser delivers them; for the round-trip check the
   reference parser keeps literals, so numbers are compared as literal text *)
Fixpoint lit_numbers (v : jv) : jv :=
  match v with
  | JInt z => JBig (format_int z)
  | JFloat t => JBig t
  | JArr l => JArr (map lit_numbers l)
  | JObj m => JObj ((fix go (m : list (bytes * jv)) : list (bytes * jv) :=
                       match m with [] => [] | (k, x) :: m' => (k, lit_numbers x) :: go m' end) m)
  | _ => v
  end.

(* text (hex) | does the reference parser read it back as the expected tree? *)
Definition model_write (indent mask limit : Z) (v : jv) : bytes :=
  let o := wopts_of indent mask in
  let t := write_all o (if limit <? 0 then None else Some limit) v in
  let ok := match ref_parse true true t with
            | Some [d] => jv_eqb (canon d) (canon (lit_numbers (expected o v)))
            | _ => false
            end in
  hex_of_bytes t ++ x20 :: (if ok then [x74] else [x66]) ++ x20 :: show (canon (expected o v)).
