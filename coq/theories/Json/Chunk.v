(* Chunking independence of control, error and position (C03/C09): a buffer boundary only
   clears the scan-ahead flag, which influences neither control nor the position fields. *)
From Coq Require Import Init.Byte NArith ZArith List Bool Lia.
Require Import Ojg.Base.Bytes Ojg.Base.Jv Ojg.Gen.OjMaps Ojg.Json.Number Ojg.Json.Machine Ojg.Json.Position.
Import ListNotations.
Open Scope Z_scope.

Section Chunk.
  Variable K : cfg.

  (* two runs agree on control, position and error, unless one of them faults *)
  Definition agree (a b : outcome + state) : Prop :=
    match a, b with
    | inl OFault, _ | _, inl OFault => True
    | inl (OErr l c), inl (OErr l' c') => l = l' /\ c = c'
    | inr (St c1 s1 d1), inr (St c2 s2 d2) => c1 = c2 /\ s1 = s2 /\ ppos d1 = ppos d2
    | _, _ => False
    end.

  Lemma step_agree c s d1 d2 b :
    ppos d1 = ppos d2 -> agree (step K c s d1 b) (step K c s d2 b).
  Proof.
    intro P. unfold step.
    destruct (ctl_step K c (view_of s) b) as [| |c' op ho]; simpl.
    - unfold ppos in P. inversion P as [[A B C]]. rewrite A, B, C. auto.
    - exact I.
    - destruct (data_step K c b ho d1) as [d1'|] eqn:E1; destruct (data_step K c b ho d2) as [d2'|] eqn:E2; simpl; auto.
      apply (data_step_pos K) in E1. apply (data_step_pos K) in E2.
      repeat split. unfold ppos in *. simpl.
      destruct (nl_action (k_tab K (c_mode c) b)); inversion E1; inversion E2; inversion P; congruence.
  Qed.

  Lemma run_agree w : forall c s d1 d2,
    ppos d1 = ppos d2 -> agree (run K c s d1 w) (run K c s d2 w).
  Proof.
    induction w as [|b w IH]; intros c s d1 d2 P; simpl.
    - auto.
    - pose proof (step_agree c s d1 d2 b P) as A. unfold agree in A.
      destruct (step K c s d1 b) as [o1|[c1 s1 e1]]; destruct (step K c s d2 b) as [o2|[c2 s2 e2]].
      + exact A.
      + destruct o1; try contradiction. simpl. exact I.
      + destruct o2; try contradiction. simpl.
        destruct (run K c1 s1 e1 w) as [[]|[]]; simpl; auto.
      + destruct A as (-> & -> & P'). apply IH. exact P'.
  Qed.

  Lemma run_app a : forall b c s d,
    run K c s d (a ++ b) = match run K c s d a with inl o => inl o | inr (St c' s' d') => run K c' s' d' b end.
  Proof.
    induction a as [|x a IH]; intros b c s d; simpl; [reflexivity|].
    destruct (step K c s d x) as [o|[c' s' d']]; auto.
  Qed.

  Lemma chunks_agree cs : forall c s d1 d2,
    ppos d1 = ppos d2 -> agree (run_chunks K c s d1 cs) (run K c s d2 (concat cs)).
  Proof.
    induction cs as [|w cs IH]; intros c s d1 d2 P; simpl.
    - auto.
    - rewrite run_app.
      assert (P' : ppos (upd_fast d1 false) = ppos d2) by exact P.
      pose proof (run_agree w c s (upd_fast d1 false) d2 P') as A. unfold agree in A.
      destruct (run K c s (upd_fast d1 false) w) as [o1|[c1 s1 e1]]; destruct (run K c s d2 w) as [o2|[c2 s2 e2]].
      + exact A.
      + destruct o1; try contradiction. simpl. exact I.
      + destruct o2; try contradiction. simpl.
        destruct (run_chunks K c1 s1 e1 cs) as [[]|[]]; simpl; auto.
      + destruct A as (-> & -> & Q). apply IH. exact Q.
  Qed.

  Theorem chunks_same_control cs :
    match run_all_chunks K cs, run_all K (concat cs) with
    | OOk _ _, OOk _ _ => True
    | OErr l c, OErr l' c' => l = l' /\ c = c'
    | OErrOther, OErrOther => True
    | OFault, _ | _, OFault => True
    | _, _ => False
    end.
  Proof.
    unfold run_all, run_all_chunks. simpl (run_chunks K ctl_init [] data_init [concat cs]).
    pose proof (chunks_agree cs ctl_init [] data_init (upd_fast data_init false) eq_refl) as A.
    unfold agree in A.
    destruct (run_chunks K ctl_init [] data_init cs) as [o1|[c1 s1 e1]];
      destruct (run K ctl_init [] (upd_fast data_init false) (concat cs)) as [o2|[c2 s2 e2]].
    - destruct o1, o2; auto; try contradiction.
    - destruct o1; try contradiction. exact I.
    - destruct o2; try contradiction.
      destruct (finish K c1 s1 e1); exact I.
    - destruct A as (-> & -> & P). unfold finish.
      destruct (ctl_end K c2 (view_of s2)) as [[|]|].
      + destruct (opt_bind (emit_num K e1) (handoff K)); destruct (opt_bind (emit_num K e2) (handoff K)); exact I.
      + exact I.
      + unfold ppos in P. inversion P as [[A B C]]. rewrite A, B, C. auto.
  Qed.
End Chunk.
