(* The reference parser's run does not depend on scratch fields that are dead in the current
   grammar position: a congruence used to reason about texts value by value. *)
From Coq Require Import Init.Byte NArith ZArith List Bool Lia.
Require Import Ojg.Base.Bytes Ojg.Base.Jv Ojg.Base.Utf8 Ojg.Json.Machine Ojg.Json.Ref Ojg.Json.RefParse Ojg.Json.ValueSim Ojg.Json.TokSim Ojg.Json.EvBuild.
Import ListNotations.
Open Scope Z_scope.

(* equal on what the position can still read *)
Definition eqv (m : rmode) (a b : rdata) : Prop :=
  same_fd a b /\ r_hi a = None /\ r_hi b = None /\
  match m with
  | RStr _ | REsc _ => r_str a = r_str b
  | RHex _ _ => r_str a = r_str b /\ r_hex a = r_hex b
  | RNum _ => r_numt a = r_numt b
  | _ => True
  end.

Lemma eqv_refl m a : r_hi a = None -> eqv m a a.
Proof. intro H. split; [apply sf_refl|]. split; [exact H|]. split; [exact H|]. destruct m; auto. Qed.

Lemma sf_str2 a b s h s' h' : same_fd a b -> same_fd (set_str a s h) (set_str b s' h').
Proof. unfold same_fd. simpl. auto. Qed.
Lemma sf_hex2 a b h h' : same_fd a b -> same_fd (set_hex a h) (set_hex b h').
Proof. unfold same_fd. simpl. auto. Qed.
Lemma sf_numt2 a b t t' : same_fd a b -> same_fd (set_numt a t) (set_numt b t').
Proof. unfold same_fd. simpl. auto. Qed.

Lemma add_value_str rd v : r_str (add_value rd v) = r_str rd.
Proof. destruct rd as [fs st hx hi nt docs]. destruct fs as [|[items|m [k|]] fs]; reflexivity. Qed.
Lemma add_value_numt rd v : r_numt (add_value rd v) = r_numt rd.
Proof. destruct rd as [fs st hx hi nt docs]. destruct fs as [|[items|m [k|]] fs]; reflexivity. Qed.

(* scratch fields after a transition, by source position *)
Lemma close_top_scratch d : r_str (close_top d) = r_str d /\ r_hex (close_top d) = r_hex d /\ r_numt (close_top d) = r_numt d.
Proof.
  unfold close_top. destruct (r_frames d) as [|f fs]; [auto|].
  destruct d as [fs0 st hx hi nt docs]. simpl. destruct fs as [|[items|mm [k|]] fs']; simpl; auto.
Qed.

Lemma op_scratch op d :
  let d' := match op with
            | SPush true => set_frames d (FObj [] None :: r_frames d)
            | SPush false => set_frames d (FArr [] :: r_frames d)
            | SPop => close_top d
            | SNone => d
            end in
  r_str d' = r_str d /\ r_hex d' = r_hex d /\ r_numt d' = r_numt d.
Proof. destruct op as [|[|]|]; simpl; auto. apply close_top_scratch. Qed.

Lemma close_str d : r_str (close_top d) = r_str d. Proof. apply close_top_scratch. Qed.
Lemma close_hex d : r_hex (close_top d) = r_hex d. Proof. apply close_top_scratch. Qed.
Lemma close_numt d : r_numt (close_top d) = r_numt d. Proof. apply close_top_scratch. Qed.
Lemma key_str d k : r_str (match r_frames d with FObj mm _ :: fs => set_frames d (FObj mm (Some k) :: fs) | _ => d end) = r_str d.
Proof. destruct (r_frames d) as [|[|] ?]; reflexivity. Qed.
Lemma key_hex d k : r_hex (match r_frames d with FObj mm _ :: fs => set_frames d (FObj mm (Some k) :: fs) | _ => d end) = r_hex d.
Proof. destruct (r_frames d) as [|[|] ?]; reflexivity. Qed.
Lemma key_numt d k : r_numt (match r_frames d with FObj mm _ :: fs => set_frames d (FObj mm (Some k) :: fs) | _ => d end) = r_numt d.
Proof. destruct (r_frames d) as [|[|] ?]; reflexivity. Qed.
Lemma add_value_hex rd v : r_hex (add_value rd v) = r_hex rd.
Proof. destruct rd as [fs st hx hi nt docs]. destruct fs as [|[items|m [k|]] fs]; reflexivity. Qed.

Definition target_ok (m m' : rmode) : bool :=
  match m, m' with
  | (RStr _ | REsc _ | RHex _ _), (RNum _ | RLit _ _) => false
  | RStr _, RHex _ _ => false
  | REsc _, (REsc _ | RTop | RDone | RVal | RArr0 | RObj0 | RKeyReq | RColon | RAfter) => false
  | RHex _ _, (REsc _ | RTop | RDone | RVal | RArr0 | RObj0 | RKeyReq | RColon | RAfter) => false
  | RLit _ _, (RStr _ | REsc _ | RHex _ _ | RNum _) => false
  | RNum _, (RStr _ | REsc _ | RHex _ _ | RLit _ _) => false
  | (RTop | RDone | RVal | RArr0 | RObj0 | RKeyReq | RColon | RAfter), (REsc _ | RHex _ _) => false
  | _, _ => true
  end.

Section Cong.
  Variable one : bool.

  Lemma rstep_target m v b m' op : rstep one m v b = Some (m', op) -> target_ok m m' = true.
  Proof.
    intro HR. destruct m; try match goal with p : nphase |- _ => destruct p end; simpl in HR; unfold value_start, delim, after_value in HR;
      repeat match type of HR with
             | context [if ?x then _ else _] => destruct x
             | context [match vtop ?v with _ => _ end] => destruct (vtop v) as [[|]|]
             | context [match word_at ?w ?n with _ => _ end] => destruct (word_at w n)
             end;
      try discriminate HR; inversion HR; subst; reflexivity.
  Qed.

  Lemma eqv_step m m' op b v a c :
    rstep one m v b = Some (m', op) ->
    eqv m a c -> eqv m' (rdata_step false m m' op b a) (rdata_step false m m' op b c).
  Proof.
    intros HR (Hsf & Ha & Hc & Hs).
    pose proof (rdata_step_hi m m' op b a Ha) as Ha'. pose proof (rdata_step_hi m m' op b c Hc) as Hc'.
    split; [|split; [exact Ha'|split; [exact Hc'|]]].
    - (* frames and documents *)
      clear Ha' Hc' HR. unfold rdata_step. cbv zeta.
      set (a1 := if is_num m && negb (is_num m') then add_value (set_numt a []) (JBig (rev (r_numt a))) else a).
      set (c1 := if is_num m && negb (is_num m') then add_value (set_numt c []) (JBig (rev (r_numt c))) else c).
      assert (H1 : same_fd a1 c1 /\ r_hi a1 = None /\ r_hi c1 = None /\ r_str a1 = r_str a /\ r_str c1 = r_str c).
      { unfold a1, c1. destruct (is_num m && negb (is_num m')) eqn:E.
        - apply andb_true_iff in E as [E _]. destruct m; try discriminate E. simpl in Hs. rewrite Hs.
          split; [apply sf_add; apply sf_numt2; exact Hsf|]. rewrite !add_value_hi, !add_value_str. simpl. auto.
        - auto. }
      clearbody a1 c1. destruct H1 as (H1 & Ha1 & Hc1 & Sa & Sc).
      match goal with |- same_fd (match op with SNone => ?x | _ => _ end) (match op with SNone => ?y | _ => _ end) =>
        set (a2 := x); set (c2 := y) end.
      assert (H2 : same_fd a2 c2).
      { unfold a2, c2. destruct m; try (destruct m'; simpl; first [exact H1 | apply sf_str2; exact H1 | apply sf_numt2; exact H1]).
        - simpl in Hs. destruct (beqb b x22).
          + rewrite (flush_hi_none _ Ha1), (flush_hi_none _ Hc1). rewrite Sa, Sc, Hs. destruct key.
            * apply sf_key. exact H1.
            * apply sf_add. exact H1.
          + destruct (beqb b x5c); [exact H1|]. unfold app_str. rewrite (flush_hi_none _ Ha1), (flush_hi_none _ Hc1). apply sf_str2. exact H1.
        - destruct (beqb b x75); [apply sf_hex2; exact H1|]. unfold app_str. rewrite (flush_hi_none _ Ha1), (flush_hi_none _ Hc1). apply sf_str2. exact H1.
        - destruct (n =? 3); simpl; [apply sf_str2; apply sf_hex2; exact H1 | apply sf_hex2; exact H1].
        - destruct (n + 1 =? Z.of_nat (length (lit_word l))); [apply sf_add; exact H1 | exact H1]. }
      clearbody a2 c2.
      destruct op as [|[|]|]; simpl.
      + exact H2.
      + destruct H2 as [Hf Hd]. split; simpl; [rewrite Hf; reflexivity | exact Hd].
      + destruct H2 as [Hf Hd]. split; simpl; [rewrite Hf; reflexivity | exact Hd].
      + apply sf_close. exact H2.
    - (* the scratch the next position reads *)
      clear Ha' Hc'. destruct Hsf as [Hf Hd].
      pose proof (rstep_target _ _ _ _ _ HR) as HT.
      assert (Fa : flush_hi a = a) by (apply flush_hi_none; exact Ha).
      assert (Fc : flush_hi c = c) by (apply flush_hi_none; exact Hc).
      destruct m, m'; try discriminate HT; try exact I; simpl in Hs;
        unfold rdata_step, app_str, code_unit; simpl; rewrite ?Fa, ?Fc;
        destruct op as [|[|]|]; simpl;
        repeat match goal with
               | |- context [if ?x then _ else _] => destruct x eqn:?; simpl
               end;
        rewrite ?close_str, ?close_hex, ?close_numt, ?key_str, ?key_hex, ?key_numt, ?add_value_str, ?add_value_numt, ?add_value_hex; simpl;
        try (destruct Hs as [Hs1 Hs2]); rewrite ?Hs, ?Hs1, ?Hs2; auto.
      all: exfalso; simpl in HR;
        match goal with E : beqb ?bb x75 = false |- _ => rewrite E in HR; destruct (is_esc bb); discriminate HR end.
  Qed.

  Lemma eqv_run w : forall m s a c,
    eqv m a c ->
    match rprun one false m s a w, rprun one false m s c w with
    | Some (m1, s1, a1), Some (m2, s2, c1) => m1 = m2 /\ s1 = s2 /\ eqv m1 a1 c1
    | None, None => True
    | _, _ => False
    end.
  Proof.
    induction w as [|b w IH]; intros m s a c H; simpl.
    - auto.
    - destruct (rstep one m (view_of s) b) as [[m' op]|] eqn:HR; [|exact I].
      apply IH. eapply eqv_step; eassumption.
  Qed.
End Cong.
