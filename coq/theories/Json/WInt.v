(* format_int writes a JSON number *)
From Coq Require Import Init.Byte NArith ZArith List Bool Lia.
Require Import Ojg.Base.Bytes Ojg.Base.Jv Ojg.Json.Number Ojg.Json.NumberFacts Ojg.Json.Machine Ojg.Json.Ref Ojg.Json.ValueSim Ojg.Json.IntLit Ojg.Json.Fmt.
Require Import Ojg.Json.WRound.
Import ListNotations.
Open Scope Z_scope.

Lemma digit_byte_ok r : 0 <= r <= 9 -> is_digit (digit_byte r) = true /\ digit_val (digit_byte r) = r /\ (1 <= r -> is_19 (digit_byte r) = true).
Proof.
  intro H. assert (r = 0 \/ r = 1 \/ r = 2 \/ r = 3 \/ r = 4 \/ r = 5 \/ r = 6 \/ r = 7 \/ r = 8 \/ r = 9) as C by lia.
  destruct C as [->|[->|[->|[->|[->|[->|[->|[->|[->| ->]]]]]]]]]; repeat split; try reflexivity; intro; try reflexivity; lia.
Qed.

Lemma dec_exists (k : nat) : forall n, 1 <= n -> (Z.to_nat n <= k)%nat ->
  exists ds, lead ds /\ all_digits ds /\ digits_val ds = n.
Proof.
  induction k as [|k IH]; intros n Hn Hk; [lia|].
  destruct (Z_lt_dec n 10) as [Hlt|Hge].
  - destruct (digit_byte_ok n ltac:(lia)) as (Hd & Hv & H19).
    exists [digit_byte n]. split; [exists (digit_byte n), []; split; [reflexivity | apply H19; lia]|].
    split; [constructor; [exact Hd | constructor]|]. unfold digits_val. simpl. lia.
  - assert (Hq : 1 <= n / 10) by (apply Z.div_le_lower_bound; lia).
    assert (Hr : 0 <= n mod 10 <= 9) by (pose proof (Z.mod_pos_bound n 10 ltac:(lia)); lia).
    destruct (IH (n / 10) Hq) as (ds & HL & HA & HV).
    { assert (n / 10 < n) by (apply Z.div_lt; lia). lia. }
    destruct (digit_byte_ok (n mod 10) Hr) as (Hd & Hv & _).
    exists (ds ++ [digit_byte (n mod 10)]). split.
    + destruct HL as (d0 & r0 & -> & H19). exists d0, (r0 ++ [digit_byte (n mod 10)]). auto.
    + split; [apply Forall_app; split; [exact HA | constructor; [exact Hd | constructor]]|].
      rewrite digits_val_snoc, HV, Hv. pose proof (Z.div_mod n 10 ltac:(lia)). lia.
Qed.

Lemma format_uint_shape n : 0 <= n ->
  (n = 0 /\ format_uint n = [x30]) \/ (exists ds, lead ds /\ all_digits ds /\ format_uint n = ds).
Proof.
  intro H. destruct (Z.eq_dec n 0) as [->|Hne]; [left; split; reflexivity|].
  right. destruct (dec_exists (Z.to_nat n) n ltac:(lia) (le_n _)) as (ds & HL & HA & HV).
  exists ds. split; [exact HL|]. split; [exact HA|]. rewrite <- HV. apply format_uint_digits; assumption.
Qed.

Lemma phase_nb t : forall p q n f, phase_run p t = Some q -> exists n' f', nb_cont p n f t = Some (q, n', f').
Proof.
  induction t as [|b t IH]; intros p q n f H; simpl in *.
  - inversion H; subst. eauto.
  - destruct (nnext p b) as [p1|]; [|discriminate H]. destruct (nupd p b n f) as [n1 f1]. apply IH. exact H.
Qed.

Lemma phase_digits ds : all_digits ds -> phase_run NInt ds = Some NInt.
Proof. induction ds as [|b ds IH]; intro H; simpl; [reflexivity|]. inversion H; subst. rewrite (nnext_int_digit b H2). apply IH. exact H3. Qed.

Lemma num_ok_digits ds : lead ds -> all_digits ds -> num_ok ds = true.
Proof.
  intros (d1 & r & -> & H19) HA. inversion HA; subst.
  destruct (is_19_facts d1 H19) as (Hm & Hz & _).
  unfold num_ok, nb_run, nstart. rewrite Hm, Hz, H19.
  destruct (phase_nb r NInt NInt (set_I num_reset (digit_val d1)) true (phase_digits r H2)) as (n' & f' & ->). reflexivity.
Qed.

Theorem num_ok_format_int z : num_ok (format_int z) = true.
Proof.
  unfold format_int. destruct (z <? 0) eqn:E.
  - apply Z.ltb_lt in E. destruct (format_uint_shape (- z) ltac:(lia)) as [[H0 _]|(ds & HL & HA & ->)]; [lia|].
    destruct HL as (d1 & r & -> & H19). inversion HA; subst.
    destruct (is_19_facts d1 H19) as (Hm & Hz & Hd).
    unfold num_ok, nb_run. change (nstart x2d) with (Some (NNeg, set_neg num_reset, false)). cbv iota beta.
    assert (Hnx : nnext NNeg d1 = Some NInt). { unfold nnext. simpl. rewrite Hz, H19. reflexivity. }
    cbn [nb_cont]. rewrite Hnx. destruct (nupd NNeg d1 (set_neg num_reset) false) as [n1 f1].
    destruct (phase_nb r NInt NInt n1 f1 (phase_digits r H2)) as (n' & f' & ->). reflexivity.
  - apply Z.ltb_ge in E. destruct (format_uint_shape z E) as [[-> ->]|(ds & HL & HA & ->)]; [reflexivity|].
    apply num_ok_digits; assumption.
Qed.
