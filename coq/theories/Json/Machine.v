(* The table-driven JSON front-ends of oj and gen, as one byte-at-a-time machine:
   what parseBuffer / validateBuffer / tokenizeBuffer do when handed a 1-byte buffer
   (every scan-ahead fast path degenerates on such a buffer). Control (mode, nextMode,
   ri, container stack) is separated from data (value stack, number, string buffer,
   position), because acceptance depends on control only. *)
From Coq Require Import Init.Byte NArith ZArith List Bool Lia.
Require Import Ojg.Base.Bytes Ojg.Base.Jv Ojg.Base.Utf8 Ojg.Gen.OjMaps Ojg.Json.Number.
Import ListNotations.
Open Scope Z_scope.

Inductive kind : Set := KParser | KValidator | KTokenizer | KGen.

Record cfg : Type := mkCfg {
  k_tab : mode -> byte -> action;
  k_fin : mode -> option N;
  k_data : mode -> byte -> option byte;  (* escByteMap *)
  k_kind : kind;
  k_one : bool }.

(* ---------------------------------------------------------------- control *)

Record fctl : Set := mkCtl { c_mode : mode; c_next : mode; c_ri : Z }.

Inductive sop : Set := SNone | SPush (obj : bool) | SPop.
(* what the machine can see of the container stack *)
Inductive view : Set := VEmpty | VOne (obj : bool) | VMany (obj : bool).
Definition view_of (s : list bool) : view :=
  match s with [] => VEmpty | [o] => VOne o | o :: _ => VMany o end.
Definition vtop (v : view) : option bool :=
  match v with VEmpty => None | VOne o | VMany o => Some o end.
Definition apply_sop (op : sop) (s : list bool) : list bool :=
  match op with SNone => s | SPush o => o :: s | SPop => tl s end.
(* is the stack empty after the operation? *)
Definition empty_after (op : sop) (v : view) : bool :=
  match op, v with
  | SNone, VEmpty => true
  | SPop, VOne _ => true
  | SPop, VEmpty => true
  | _, _ => false
  end.

Inductive cres : Set :=
  | CErr                                    (* returns a *ParseError *)
  | CFault                                  (* Go runtime panic *)
  | COk (c : fctl) (op : sop) (handoff : bool).

Definition set_mode (c : fctl) (m : mode) : fctl := mkCtl m (c_next c) (c_ri c).
Definition set_str (c : fctl) (nx : mode) : fctl := mkCtl M_stringMap nx (c_ri c).
Definition set_ri (c : fctl) (m : mode) (ri : Z) : fctl := mkCtl m (c_next c) ri.

Definition is_act (a b : action) : bool := (action_code a =? action_code b)%N.

Section Control.
  Variable K : cfg.

  (* the code after the switch: hand a finished top-level value over *)
  Definition post (c : fctl) (op : sop) (v : view) : cres :=
    if empty_after op v && match k_fin K (c_mode c) with Some 97%N => true | _ => false end
    then COk (set_mode c (if k_one K then M_spaceMap else M_valueMap)) op true
    else COk c op false.

  Definition word_at (w : bytes) (i : Z) : option byte :=
    if i <? 0 then None else nth_error w (Z.to_nat i).

  Definition lit_step (c : fctl) (v : view) (w : bytes) (b : byte) : cres :=
    let ri := c_ri c + 1 in
    match word_at w ri with
    | None => CFault                      (* index out of range *)
    | Some ch =>
        if negb (beqb ch b) then CErr
        else if Z.of_nat (length w) - 1 <=? ri then post (set_ri c M_afterMap ri) SNone v
        else post (set_ri c (c_mode c) ri) SNone v
    end.

  Definition w_true : bytes := [x74; x72; x75; x65].
  Definition w_false : bytes := [x66; x61; x6c; x73; x65].
  Definition w_null : bytes := [x6e; x75; x6c; x6c].

  Definition ctl_step (c : fctl) (v : view) (b : byte) : cres :=
    let m := c_mode c in
    match k_tab K m b with
    | A_skipNewline => COk c SNone false
    | A_colonColon => COk (set_mode c M_commaMap) SNone false
    | A_skipChar => COk c SNone false
    | A_strOk => match k_kind K with KValidator => COk c SNone false | _ => post c SNone v end
    | A_keyQuote => COk (set_str c M_colonMap) SNone false
    | A_afterComma =>
        COk (set_mode c (match vtop v with Some true => M_keyMap | _ => M_commaMap end)) SNone false
    | A_valQuote => COk (set_str c M_afterMap) SNone false
    | A_numComma =>
        match vtop v with
        | None => CErr
        | Some true => post (set_mode c M_keyMap) SNone v
        | Some false => post (set_mode c M_commaMap) SNone v
        end
    | A_strSlash => COk (set_mode c M_escMap) SNone false
    | A_escOk => COk (set_mode c M_stringMap) SNone false
    | A_openObject => COk (set_mode c M_key1Map) (SPush true) false
    | A_closeObject =>
        match vtop v with
        | Some true => post (set_mode c M_afterMap) SPop v
        | _ => CErr
        end
    | A_val0 => match k_kind K with
                | KValidator => COk (set_mode c M_zeroMap) SNone false
                | _ => post (set_mode c M_zeroMap) SNone v end
    | A_valDigit => match k_kind K with
                | KValidator => COk (set_mode c M_digitMap) SNone false
                | _ => post (set_mode c M_digitMap) SNone v end
    | A_valNeg => COk (set_mode c M_negMap) SNone false
    | A_escU => COk (set_ri c M_uMap 0) SNone false
    | A_openArray => COk (set_mode c M_valueMap) (SPush false) false
    | A_closeArray =>
        match vtop v with
        | Some false => post (set_mode c M_afterMap) SPop v
        | _ => CErr
        end
    | A_valNull => post (set_ri c M_nullMap 0) SNone v
    | A_valTrue => post (set_ri c M_trueMap 0) SNone v
    | A_valFalse => post (set_ri c M_falseMap 0) SNone v
    | A_numDot => match k_kind K with
                  | KValidator => COk (set_mode c M_dotMap) SNone false
                  | _ => post (set_mode c M_dotMap) SNone v end
                  (* with a big number in progress the code `continue`s instead; dotMap has no
                     final marker so [post] is the identity there: same outcome *)
    | A_numFrac => post (set_mode c M_fracMap) SNone v
    | A_fracE => COk (set_mode c M_expSignMap) SNone false
    | A_strQuote => post (set_mode c (c_next c)) SNone v
    | A_numZero => post (set_mode c M_zeroMap) SNone v
    | A_numDigit => post c SNone v
    | A_negDigit => post (set_mode c M_digitMap) SNone v
    | A_numSpc => post (set_mode c M_afterMap) SNone v
    | A_numNewline => post (set_mode c M_afterMap) SNone v
    | A_expSign => COk (set_mode c M_expZeroMap) SNone false
    | A_expDigit => post (set_mode c M_expMap) SNone v
    | A_uOk => let ri := c_ri c + 1 in
               COk (if ri =? 4 then set_ri c M_stringMap ri else set_ri c m ri) SNone false
    | A_tokenOk =>
        if is_act (k_tab K m x72) A_tokenOk then lit_step c v w_true b
        else if is_act (k_tab K m x61) A_tokenOk then lit_step c v w_false b
        else if is_act (k_tab K m x75) A_tokenOk && is_act (k_tab K m x6c) A_tokenOk then lit_step c v w_null b
        else post c SNone v
    | A_charErr => CErr
    | A_other => post c SNone v
    end.

  (* end of input (last buffer): error, or ok; [true] when a pending number is delivered *)
  Definition ctl_end (c : fctl) (v : view) : option bool :=
    match v, k_fin K (c_mode c) with
    | VEmpty, Some f => Some (f =? 110)%N
    | _, _ => None
    end.
End Control.

Definition ctl_init : fctl := mkCtl M_valueMap M_valueMap 0.

(* control-only run: acceptance *)
Fixpoint ctl_run (K : cfg) (c : fctl) (s : list bool) (w : bytes) : option (fctl * list bool) :=
  match w with
  | [] => Some (c, s)
  | b :: w' =>
      match ctl_step K c (view_of s) b with
      | COk c' op _ => ctl_run K c' (apply_sop op s) w'
      | _ => None
      end
  end.

Definition ctl_accepts (K : cfg) (w : bytes) : bool :=
  match ctl_run K ctl_init [] w with
  | Some (c, s) => match ctl_end K c (view_of s) with Some _ => true | None => false end
  | None => false
  end.

(* ------------------------------------------------------------------- data *)

Inductive sitem : Set :=
  | SVal (v : jv)
  | SKey (k : bytes)
  | SMap (m : list (bytes * jv))
  | SMark.                               (* emptySlice placeholder under an array's elements *)

Inductive ev : Set :=
  | ENull | EBool (b : bool) | EInt (z : Z) | EFloat (t : bytes) | ENumber (t : bytes)
  | EString (s : bytes) | EKey (s : bytes) | EObjStart | EObjEnd | EArrStart | EArrEnd.

Record data : Set := mkData {
  d_stack : list sitem;      (* top first *)
  d_starts : list Z;         (* top first: -1 object, else index of the array placeholder *)
  d_rtmp : bytes;            (* p.tmp reversed *)
  d_num : num;
  d_rn : Z;
  d_line : Z;
  d_noff : Z;                (* absolute offset of the last newline, -1 initially *)
  d_pos : Z;                 (* absolute offset of the byte being processed *)
  d_docs : list jv;          (* delivered documents, newest first *)
  d_evs : list ev;           (* tokenizer events, newest first *)
  d_fast : bool }.           (* inside the valDigit scan-ahead loop of the current buffer *)

Definition data_init : data := mkData [] [] [] num_reset 0 1 (-1) 0 [] [] false.

Definition item_val (i : sitem) : jv :=
  match i with SVal v => v | SKey k => JStr k | SMap m => JObj m | SMark => JArr [] end.

(* Parser.add *)
Definition add (stk : list sitem) (v : jv) : option (list sitem) :=
  match stk with
  | SKey k :: below :: rest =>
      match below with
      | SMap m => Some (SMap (map_set k v m) :: rest)
      | _ => None                         (* assignment to entry in nil map *)
      end
  | _ => Some (SVal v :: stk)
  end.

Definition upd_stack (d : data) (s : list sitem) : data :=
  mkData s (d_starts d) (d_rtmp d) (d_num d) (d_rn d) (d_line d) (d_noff d) (d_pos d) (d_docs d) (d_evs d) (d_fast d).
Definition upd_stacks (d : data) (s : list sitem) (st : list Z) : data :=
  mkData s st (d_rtmp d) (d_num d) (d_rn d) (d_line d) (d_noff d) (d_pos d) (d_docs d) (d_evs d) (d_fast d).
Definition upd_tmp (d : data) (t : bytes) : data :=
  mkData (d_stack d) (d_starts d) t (d_num d) (d_rn d) (d_line d) (d_noff d) (d_pos d) (d_docs d) (d_evs d) (d_fast d).
Definition upd_num (d : data) (n : num) : data :=
  mkData (d_stack d) (d_starts d) (d_rtmp d) n (d_rn d) (d_line d) (d_noff d) (d_pos d) (d_docs d) (d_evs d) (d_fast d).
Definition upd_rn (d : data) (r : Z) : data :=
  mkData (d_stack d) (d_starts d) (d_rtmp d) (d_num d) r (d_line d) (d_noff d) (d_pos d) (d_docs d) (d_evs d) (d_fast d).
Definition upd_nl (d : data) : data :=
  mkData (d_stack d) (d_starts d) (d_rtmp d) (d_num d) (d_rn d) (d_line d + 1) (d_pos d) (d_pos d) (d_docs d) (d_evs d) (d_fast d).
Definition upd_pos (d : data) (p : Z) : data :=
  mkData (d_stack d) (d_starts d) (d_rtmp d) (d_num d) (d_rn d) (d_line d) (d_noff d) p (d_docs d) (d_evs d) (d_fast d).
Definition upd_docs (d : data) (s : list sitem) (docs : list jv) : data :=
  mkData s (d_starts d) (d_rtmp d) (d_num d) (d_rn d) (d_line d) (d_noff d) (d_pos d) docs (d_evs d) (d_fast d).
Definition upd_fast (d : data) (f : bool) : data :=
  mkData (d_stack d) (d_starts d) (d_rtmp d) (d_num d) (d_rn d) (d_line d) (d_noff d) (d_pos d) (d_docs d) (d_evs d) f.
Definition push_ev (d : data) (e : ev) : data :=
  mkData (d_stack d) (d_starts d) (d_rtmp d) (d_num d) (d_rn d) (d_line d) (d_noff d) (d_pos d) (d_docs d) (e :: d_evs d) (d_fast d).

Definition hex_val (b : byte) : Z :=
  let x := b2z b in
  if (48 <=? x) && (x <=? 57) then x - 48
  else if (97 <=? x) && (x <=? 102) then x - 87
  else if (65 <=? x) && (x <=? 70) then x - 55
  else 0.

Section Data.
  Variable K : cfg.

  Definition num_value (n : num) : jv :=
    match k_kind K with KGen => as_node n | _ => as_num n end.

  Definition num_event (n : num) : ev :=
    match as_num n with
    | JInt z => EInt z
    | JFloat t => EFloat t
    | JBig t => ENumber t
    | _ => ENull
    end.

  (* deliver a value: Parser/gen add to the stack, Tokenizer emits an event, Validator nothing *)
  Definition emit_val (d : data) (v : jv) (e : ev) : option data :=
    match k_kind K with
    | KParser | KGen => match add (d_stack d) v with Some s => Some (upd_stack d s) | None => None end
    | KTokenizer => Some (push_ev d e)
    | KValidator => Some d
    end.

  Definition emit_num (d : data) : option data :=
    emit_val d (num_value (d_num d)) (num_event (d_num d)).

  Definition builds : bool := match k_kind K with KParser | KGen => true | _ => false end.
  Definition has_num : bool := match k_kind K with KValidator => false | _ => true end.

  Definition fin_is (m : mode) (x : N) : bool :=
    match k_fin K m with Some f => (f =? x)%N | None => false end.

  (* the hand-off of a finished top-level value *)
  Definition handoff (d : data) : option data :=
    if builds then
      match rev (d_stack d) with
      | [] => None                         (* p.stack[0]: index out of range *)
      | bottom :: _ => Some (upd_docs d [] (item_val bottom :: d_docs d))
      end
    else Some d.

  Definition opt_bind {A B} (o : option A) (f : A -> option B) : option B :=
    match o with Some a => f a | None => None end.

  (* [c] is the control state BEFORE the step *)
  (* one iteration of the valDigit scan-ahead loop (Parser, gen.Parser, Tokenizer):
       if BigLimit <= I { FillBig(); AddDigit(b); break }; I = I*10 + d *)
  Definition fast_digit (n : num) (b : byte) : num * bool :=
    if Ojg.Gen.Consts.gen_BigLimit <=? nI n then (add_digit (fill_big n) b, false)
    else (set_I n (nI n * 10 + digit_val b), true).

  Definition data_step (c : fctl) (b : byte) (ho : bool) (d0 : data) : option data :=
    let m := c_mode c in
    if d_fast d0 && has_num && mode_eqb m M_digitMap && is_act (k_tab K m b) A_numDigit then
      let '(n, f) := fast_digit (d_num d0) b in Some (upd_fast (upd_num d0 n) f)
    else
    let d := upd_fast d0 false in
    let r :=
      match k_tab K m b with
      | A_skipNewline => Some (upd_nl d)
      | A_strOk => if has_num then Some (upd_tmp d (b :: d_rtmp d)) else Some d
      | A_keyQuote | A_valQuote => Some (upd_tmp d [])
      | A_numComma => if has_num then emit_num d else Some d
      | A_escOk =>
          if has_num then
            match k_data K m b with
            | Some e => Some (upd_tmp d (e :: d_rtmp d))
            | None => None                 (* escByteMap index out of range *)
            end
          else Some d
      | A_openObject =>
          match k_kind K with
          | KParser | KGen => Some (upd_stacks d (SMap [] :: d_stack d) (-1 :: d_starts d))
          | KTokenizer => Some (push_ev (upd_stacks d (d_stack d) (-1 :: d_starts d)) EObjStart)
          | KValidator => Some (upd_stacks d (d_stack d) (-1 :: d_starts d))
          end
      | A_closeObject =>
          opt_bind (if has_num && fin_is m 110 then emit_num d else Some d) (fun d =>
          match k_kind K with
          | KParser | KGen =>
              match d_stack d with
              | [] => None                 (* p.stack[len-1] on an empty stack *)
              | top :: rest =>
                  match add rest (item_val top) with
                  | Some s => Some (upd_stacks d s (tl (d_starts d)))
                  | None => None
                  end
              end
          | KTokenizer => Some (push_ev (upd_stacks d (d_stack d) (tl (d_starts d))) EObjEnd)
          | KValidator => Some (upd_stacks d (d_stack d) (tl (d_starts d)))
          end)
      | A_val0 => if has_num then Some (upd_num d num_reset) else Some d
      | A_valDigit => if has_num then Some (upd_fast (upd_num d (set_I num_reset (digit_val b))) true) else Some d
      | A_valNeg => if has_num then Some (upd_num d (set_neg num_reset)) else Some d
      | A_escU => if has_num then Some (upd_rn d 0) else Some d
      | A_openArray =>
          match k_kind K with
          | KParser | KGen =>
              Some (upd_stacks d (SMark :: d_stack d) (Z.of_nat (length (d_stack d)) :: d_starts d))
          | KTokenizer => Some (push_ev (upd_stacks d (d_stack d) (0 :: d_starts d)) EArrStart)
          | KValidator => Some (upd_stacks d (d_stack d) (0 :: d_starts d))
          end
      | A_closeArray =>
          opt_bind (if has_num && fin_is m 110 then emit_num d else Some d) (fun d =>
          match k_kind K with
          | KParser | KGen =>
              match d_starts d with
              | [] => None
              | st :: starts' =>
                  let start := st + 1 in
                  let len := Z.of_nat (length (d_stack d)) in
                  let size := len - start in
                  if (size <? 0) || (start - 1 <? 0) then None   (* slice bounds out of range *)
                  else
                    let elems := rev (firstn (Z.to_nat size) (d_stack d)) in
                    let rest := skipn (Z.to_nat size + 1) (d_stack d) in
                    match add rest (JArr (map item_val elems)) with
                    | Some s => Some (upd_stacks d s starts')
                    | None => None
                    end
              end
          | KTokenizer => Some (push_ev (upd_stacks d (d_stack d) (tl (d_starts d))) EArrEnd)
          | KValidator => Some (upd_stacks d (d_stack d) (tl (d_starts d)))
          end)
      | A_numDot => if has_num && is_big (d_num d) then Some (upd_num d (push_big (d_num d) b)) else Some d
      | A_numFrac => if has_num then Some (upd_num d (add_frac (d_num d) b)) else Some d
      | A_fracE => if has_num && is_big (d_num d) then Some (upd_num d (push_big (d_num d) b)) else Some d
      | A_strQuote =>
          match k_kind K with
          | KParser | KGen =>
              (* p.mode[':'] == colonColon, probed on the NEW mode (= nextMode) *)
              if is_act (k_tab K (c_next c) x3a) A_colonColon
              then Some (upd_stack d (SKey (rev (d_rtmp d)) :: d_stack d))
              else emit_val d (JStr (rev (d_rtmp d))) ENull
          | KTokenizer =>
              if mode_eqb (c_next c) M_colonMap
              then Some (push_ev d (EKey (rev (d_rtmp d))))
              else Some (push_ev d (EString (rev (d_rtmp d))))
          | KValidator => Some d
          end
      | A_numDigit | A_negDigit => if has_num then Some (upd_num d (add_digit (d_num d) b)) else Some d
      | A_numSpc => if has_num then emit_num d else Some d
      | A_numNewline => opt_bind (if has_num then emit_num d else Some d) (fun d => Some (upd_nl d))
      | A_expSign =>
          if has_num then
            let n := if is_big (d_num d) then push_big (d_num d) b else d_num d in
            Some (upd_num d (if beqb b x2d then set_negexp n else n))
          else Some d
      | A_expDigit => if has_num then Some (upd_num d (add_exp (d_num d) b)) else Some d
      | A_uOk =>
          if has_num then
            let rn := d_rn d * 16 + hex_val b in
            let d := upd_rn d rn in
            if c_ri c + 1 =? 4 then Some (upd_tmp d (rev (encode_rune rn) ++ d_rtmp d)) else Some d
          else Some d
      | A_tokenOk =>
          (* which literal is decided by the table probe, as in the code; control has already
             checked that the byte matches *)
          let fin_lit (w : bytes) (v : jv) (e : ev) :=
            if Z.of_nat (length w) - 1 <=? c_ri c + 1 then emit_val d v e else Some d in
          if is_act (k_tab K m x72) A_tokenOk then fin_lit w_true (JBool true) (EBool true)
          else if is_act (k_tab K m x61) A_tokenOk then fin_lit w_false (JBool false) (EBool false)
          else if is_act (k_tab K m x75) A_tokenOk && is_act (k_tab K m x6c) A_tokenOk
               then fin_lit w_null JNull ENull
          else Some d
      | _ => Some d
      end in
    opt_bind r (fun d => if ho then handoff d else Some d).
End Data.

(* ------------------------------------------------------------- full machine *)

Inductive outcome : Set :=
  | OErr (line col : Z)          (* a ParseError *)
  | OErrOther                    (* an error that is not a ParseError (bad BOM) *)
  | OFault                       (* runtime panic *)
  | OOk (docs : list jv) (evs : list ev).   (* oldest first *)

Inductive state : Set := St (c : fctl) (s : list bool) (d : data).

Definition step (K : cfg) (c : fctl) (s : list bool) (d : data) (b : byte) : outcome + state :=
  match ctl_step K c (view_of s) b with
  | CErr => inl (OErr (d_line d) (d_pos d - d_noff d))
  | CFault => inl OFault
  | COk c' op ho =>
      match data_step K c b ho d with
      | None => inl OFault
      | Some d' => inr (St c' (apply_sop op s) (upd_pos d' (d_pos d' + 1)))
      end
  end.

Fixpoint run (K : cfg) (c : fctl) (s : list bool) (d : data) (w : bytes) : outcome + state :=
  match w with
  | [] => inr (St c s d)
  | b :: w' =>
      match step K c s d b with
      | inl o => inl o
      | inr (St c' s' d') => run K c' s' d' w'
      end
  end.

Definition finish (K : cfg) (c : fctl) (s : list bool) (d : data) : outcome :=
  match ctl_end K c (view_of s) with
  | None => OErr (d_line d) (d_pos d - d_noff d)
  | Some false => OOk (rev (d_docs d)) (rev (d_evs d))
  | Some true =>
      match opt_bind (emit_num K d) (handoff K) with
      | None => OFault
      | Some d' => OOk (rev (d_docs d')) (rev (d_evs d'))
      end
  end.

(* a sequence of buffers: the scan-ahead state does not survive a buffer boundary *)
Fixpoint run_chunks (K : cfg) (c : fctl) (s : list bool) (d : data) (cs : list bytes) : outcome + state :=
  match cs with
  | [] => inr (St c s d)
  | w :: cs' =>
      match run K c s (upd_fast d false) w with
      | inl o => inl o
      | inr (St c' s' d') => run_chunks K c' s' d' cs'
      end
  end.

Definition run_all_chunks (K : cfg) (cs : list bytes) : outcome :=
  match run_chunks K ctl_init [] data_init cs with
  | inl o => o
  | inr (St c s d) => finish K c s d
  end.

Definition run_all (K : cfg) (w : bytes) : outcome := run_all_chunks K [w].

(* Parse / Validate / Tokenizer.Parse on a byte slice: BOM handling in front *)
Definition parse_bytes (K : cfg) (w : bytes) : outcome :=
  match w with
  | b0 :: b1 :: b2 :: _ :: _ =>
      if beqb b0 xef then
        if beqb b1 xbb && beqb b2 xbf then run_all K (skipn 3 w) else OErrOther
      else run_all K w
  | _ => run_all K w
  end.

Definition oj_cfg (k : kind) (one : bool) : cfg :=
  mkCfg OjMaps.tab OjMaps.fin (fun _ => OjMaps.data_escByteMap) k one.

(* ParseReader / ValidateReader / Tokenizer.Load: the BOM is looked for in the first Read
   result only, and only if that result is longer than 3 bytes *)
Definition parse_chunks (K : cfg) (cs : list bytes) : outcome :=
  match cs with
  | (b0 :: b1 :: b2 :: b3 :: r) :: cs' =>
      if beqb b0 xef && beqb b1 xbb && beqb b2 xbf then run_all_chunks K ((b3 :: r) :: cs')
      else run_all_chunks K cs
  | _ => run_all_chunks K cs
  end.
