(* C02, literals with an exponent: the number builder ends in a state whose FillBig text is the
   text of the mantissa state followed by  e [-] E  with E the value of the exponent digits
   (no plus sign, no leading zeros, lower case e): the canonical spelling of the same number. *)
From Coq Require Import Init.Byte NArith ZArith List Bool Lia.
Require Import Ojg.Base.Bytes Ojg.Base.Jv Ojg.Gen.Consts Ojg.Gen.OjMaps Ojg.Json.Number Ojg.Json.NumberFacts Ojg.Json.Machine Ojg.Json.Ref Ojg.Json.ValueSim Ojg.Json.IntLit Ojg.Json.Fmt Ojg.Json.Dec.
Import ListNotations.
Open Scope Z_scope.

Lemma add_exp_consts :
  Number.lit gen_num_AddExp_ops 1 = 1 /\ Number.lit gen_num_AddExp_lits 1 = 102 /\
  Number.lit gen_num_AddExp_lits 2 = 10 /\ Number.lit gen_num_AddExp_lits 3 = 48 /\
  Number.lit gen_num_AddExp_ops 2 = 0 /\ Number.lit gen_num_AddExp_lits 4 = 1022.
Proof. vm_compute. repeat split; reflexivity. Qed.

(* everything but the exponent fields *)
Definition same_mant (n n' : num) : Prop :=
  nBig n' = nBig n /\ nI n' = nI n /\ nFrac n' = nFrac n /\ nDiv n' = nDiv n /\ nNeg n' = nNeg n.

Lemma add_exp_state n b :
  nBig n = [] -> 0 <= nExp n <= 102 -> digit_ok b -> nExp n * 10 + digit_val b <= 1022 ->
  same_mant n (add_exp n b) /\ nExp (add_exp n b) = nExp n * 10 + digit_val b /\ nNegExp (add_exp n b) = nNegExp n.
Proof.
  intros Hb He Hd Hlim.
  destruct add_exp_consts as (O1 & L1 & L2 & L3 & O2 & L4).
  unfold add_exp, is_big. rewrite Hb, O1, L1, L2, L3, O2, L4. unfold cmpz. simpl (_ =? _).
  unfold digit_ok, digit_val in *.
  destruct (nExp n <=? 102) eqn:E; [|apply Z.leb_gt in E; lia].
  assert (W : wrap64 (nExp n * 10 + (b2z b - 48)) = nExp n * 10 + (b2z b - 48)).
  { unfold wrap64, two64. apply Z.mod_small. lia. }
  rewrite W.
  destruct (1022 <? nExp n * 10 + (b2z b - 48)) eqn:E2; [apply Z.ltb_lt in E2; lia|].
  unfold same_mant. simpl. repeat split; auto.
Qed.

Lemma exp_fold es : forall n,
  all_digits es -> nBig n = [] -> 0 <= nExp n -> val_from (nExp n) es <= 1022 ->
  let n' := fold_left add_exp es n in
  same_mant n n' /\ nExp n' = val_from (nExp n) es /\ nNegExp n' = nNegExp n.
Proof.
  induction es as [|b es IH]; intros n H Hb He Hlim; simpl.
  - unfold same_mant. repeat split; reflexivity.
  - inversion H; subst. pose proof (is_digit_ok b H2) as Hd.
    assert (Hstep : nExp n * 10 + digit_val b <= 1022 /\ nExp n <= 102).
    { unfold digit_ok in Hd. unfold val_from in Hlim. simpl in Hlim.
      pose proof (val_from_ge es (nExp n * 10 + digit_val b) H3 ltac:(lia)) as G. unfold val_from in G. lia. }
    destruct Hstep as [Hs1 Hs2].
    destruct (add_exp_state n b Hb ltac:(lia) Hd Hs1) as ((M1 & M2 & M3 & M4 & M5) & E1 & E2).
    unfold digit_ok in Hd.
    specialize (IH (add_exp n b) H3 ltac:(congruence) ltac:(lia)).
    rewrite E1 in IH. specialize (IH Hlim). cbv zeta in IH.
    destruct IH as ((N1 & N2 & N3 & N4 & N5) & F1 & F2).
    unfold same_mant. repeat split; congruence.
Qed.

Lemma nnext_exp_digit b : is_digit b = true -> nnext NExp b = Some NExp.
Proof. intro H. unfold nnext. simpl. rewrite H. reflexivity. Qed.

Lemma exp_cont es : forall n, all_digits es ->
  nb_cont NExp n false es = Some (NExp, fold_left add_exp es n, false).
Proof.
  induction es as [|b es IH]; intros n H; simpl; [reflexivity|].
  inversion H; subst. rewrite (nnext_exp_digit b H2). unfold nupd, exp_act. apply IH. exact H3.
Qed.

Definition is_eb (b : byte) : Prop := b = x65 \/ b = x45.
Definition mant_phase (p : nphase) : Prop := p = NInt \/ p = NZero \/ p = NFrac.

(* e, then digits (no sign) *)
Lemma exp_plain_cont p n f e e1 es :
  mant_phase p -> is_big n = false -> is_eb e -> all_digits (e1 :: es) ->
  nb_cont p n f (e :: e1 :: es) = Some (NExp, fold_left add_exp (e1 :: es) n, false).
Proof.
  intros Hp Hbig He H. inversion H; subst.
  assert (Hnx : nnext p e = Some NESign) by (destruct He; subst e; destruct Hp as [|[|]]; subst p; reflexivity).
  assert (Hup : nupd p e n f = (n, false)).
  { unfold nupd. destruct He; subst e; destruct Hp as [|[|]]; subst p; simpl; rewrite Hbig; reflexivity. }
  cbn [nb_cont]. rewrite Hnx, Hup.
  assert (Hn1 : nnext NESign e1 = Some NExp).
  { unfold nnext. simpl. destruct (beqb e1 x2b || beqb e1 x2d) eqn:E.
    - apply orb_true_iff in E as [E|E]; apply beqb_eq in E; subst e1; discriminate H2.
    - rewrite H2. reflexivity. }
  rewrite Hn1. unfold nupd at 1. unfold exp_act. rewrite H2. simpl fold_left. apply exp_cont. exact H3.
Qed.

(* e, a sign, then digits *)
Lemma exp_signed_cont p n f e sg e1 es :
  mant_phase p -> is_big n = false -> is_eb e -> (sg = x2b \/ sg = x2d) -> all_digits (e1 :: es) ->
  nb_cont p n f (e :: sg :: e1 :: es) =
  Some (NExp, fold_left add_exp (e1 :: es) (if beqb sg x2d then set_negexp n else n), false).
Proof.
  intros Hp Hbig He Hsg H. inversion H; subst.
  assert (Hnx : nnext p e = Some NESign) by (destruct He; subst e; destruct Hp as [|[|]]; subst p; reflexivity).
  assert (Hup : nupd p e n f = (n, false)).
  { unfold nupd. destruct He; subst e; destruct Hp as [|[|]]; subst p; simpl; rewrite Hbig; reflexivity. }
  cbn [nb_cont]. rewrite Hnx, Hup.
  assert (Hn1 : nnext NESign sg = Some NEZero) by (destruct Hsg; subst sg; reflexivity).
  assert (Hu1 : nupd NESign sg n false = (if beqb sg x2d then set_negexp n else n, false)).
  { unfold nupd. destruct Hsg; subst sg; simpl; rewrite Hbig; reflexivity. }
  rewrite Hn1, Hu1.
  assert (Hn2 : nnext NEZero e1 = Some NExp). { unfold nnext. simpl. rewrite H2. reflexivity. }
  rewrite Hn2. unfold nupd at 1. unfold exp_act. simpl fold_left. apply exp_cont. exact H3.
Qed.

Lemma nb_run_app m r p n f : nb_run m = Some (p, n, f) -> nb_run (m ++ r) = nb_cont p n f r.
Proof.
  destruct m as [|b m]; [discriminate|]. simpl. destruct (nstart b) as [[[p0 n0] f0]|]; [|discriminate].
  intro H. rewrite nb_cont_app, H. reflexivity.
Qed.

Lemma fill_text_exp n n' :
  same_mant n n' -> nExp n = 0 -> 0 < nExp n' ->
  fill_text n' = fill_text n ++ x65 :: (if nNegExp n' then [x2d] else []) ++ format_uint (nExp n').
Proof.
  intros (M1 & M2 & M3 & M4 & M5) E0 Epos.
  destruct fill_consts as (O0 & L0 & O1 & L1 & O2 & L2).
  unfold fill_text. rewrite M2, M3, M4, M5, E0, O2, L2. unfold cmpz. simpl (0 =? 0). simpl (0 <? 0).
  destruct (0 <? nExp n') eqn:E; [|apply Z.ltb_ge in E; lia].
  rewrite app_nil_r. rewrite <- !app_assoc. reflexivity.
Qed.

Definition sign_ok (sg : bytes) : Prop := sg = [] \/ sg = [x2b] \/ sg = [x2d].
Definition sign_neg (sg : bytes) : bool := match sg with [b] => beqb b x2d | _ => false end.

(* mantissa m (already known to leave the builder in state n, phase p), then e [sign] digits *)
Theorem exp_literal m p n f e sg es :
  nb_run m = Some (p, n, f) -> mant_phase p -> nBig n = [] -> nExp n = 0 -> nNegExp n = false ->
  is_eb e -> sign_ok sg -> all_digits es -> 0 < digits_val es <= 1022 ->
  as_num (num_of (m ++ e :: sg ++ es)) =
  JFloat (fill_text n ++ x65 :: (if sign_neg sg then [x2d] else []) ++ format_uint (digits_val es)).
Proof.
  intros Hm Hp Hb He0 Hne He Hsg Hes Hval.
  assert (Hbig : is_big n = false) by (unfold is_big; rewrite Hb; reflexivity).
  destruct es as [|e1 es]; [unfold digits_val in Hval; simpl in Hval; lia|].
  unfold num_of. rewrite (nb_run_app m _ p n f Hm).
  assert (Hfin : exists n0, nb_cont p n f (e :: sg ++ e1 :: es) = Some (NExp, fold_left add_exp (e1 :: es) n0, false) /\
                 nBig n0 = [] /\ nExp n0 = 0 /\ same_mant n n0 /\ nNegExp n0 = sign_neg sg).
  { destruct Hsg as [ -> | [ -> | -> ] ]; simpl app.
    - exists n. split; [apply exp_plain_cont; assumption|]. repeat split; auto.
    - exists n. split; [rewrite (exp_signed_cont p n f e x2b e1 es Hp Hbig He (or_introl eq_refl) Hes); reflexivity|].
      repeat split; auto.
    - exists (set_negexp n). split; [rewrite (exp_signed_cont p n f e x2d e1 es Hp Hbig He (or_intror eq_refl) Hes); reflexivity|].
      repeat split; auto. }
  destruct Hfin as (n0 & -> & Hb0 & He00 & Hm0 & Hn0).
  pose proof (exp_fold (e1 :: es) n0 Hes Hb0 ltac:(lia)) as HF. rewrite He00 in HF.
  change (val_from 0 (e1 :: es)) with (digits_val (e1 :: es)) in HF.
  specialize (HF ltac:(lia)). cbv zeta in HF. destruct HF as (Hsm & HE & HNE).
  set (n' := fold_left add_exp (e1 :: es) n0) in *.
  assert (Hsm' : same_mant n n').
  { destruct Hm0 as (A1 & A2 & A3 & A4 & A5). destruct Hsm as (B1 & B2 & B3 & B4 & B5). unfold same_mant. repeat split; congruence. }
  unfold as_num, is_big.
  destruct Hsm' as (C1 & C2 & C3 & C4 & C5). rewrite C1, Hb.
  destruct ((nDiv n' =? 1) && (nExp n' =? 0)) eqn:E.
  { apply andb_true_iff in E as [_ E]. apply Z.eqb_eq in E. lia. }
  rewrite (fill_text_exp n n'); [| unfold same_mant; auto | exact He0 | lia].
  rewrite HE, HNE, Hn0. reflexivity.
Qed.

(* the two common mantissas *)
Lemma nb_run_int d1 ds :
  is_19 d1 = true -> all_digits ds -> digits_val (d1 :: ds) < gen_BigLimit * 10 ->
  nb_run (d1 :: ds) = Some (NInt, set_I num_reset (digits_val (d1 :: ds)), true).
Proof.
  intros H1 Hds Hlim. destruct (is_19_facts d1 H1) as (Hm & Hz & Hd1).
  pose proof (is_digit_ok d1 Hd1) as Hok. unfold digit_ok in Hok.
  unfold nb_run, nstart. rewrite Hm, Hz, H1.
  rewrite (fast_cont ds (digit_val d1) Hds ltac:(lia)) by (intros _; exact Hlim). reflexivity.
Qed.

Theorem exp_literal_int d1 ds e sg es :
  is_19 d1 = true -> all_digits ds -> digits_val (d1 :: ds) < gen_BigLimit * 10 ->
  is_eb e -> sign_ok sg -> all_digits es -> 0 < digits_val es <= 1022 ->
  as_num (num_of ((d1 :: ds) ++ e :: sg ++ es)) =
  JFloat ((d1 :: ds) ++ x65 :: (if sign_neg sg then [x2d] else []) ++ format_uint (digits_val es)).
Proof.
  intros H1 Hds Hlim He Hsg Hes Hval.
  rewrite (exp_literal (d1 :: ds) NInt _ true e sg es (nb_run_int d1 ds H1 Hds Hlim) (or_introl eq_refl) eq_refl eq_refl eq_refl He Hsg Hes Hval).
  f_equal. f_equal.
  unfold fill_text. destruct fill_consts as (O0 & L0 & O1 & L1 & O2 & L2). rewrite O0, L0, O2, L2. simpl.
  rewrite app_nil_r. apply format_uint_digits; [exists d1, ds; auto|].
  destruct (is_19_facts d1 H1) as (_ & _ & Hd1). constructor; assumption.
Qed.

Lemma nb_run_dec d1 ds fr :
  is_19 d1 = true -> all_digits ds -> digits_val (d1 :: ds) < gen_BigLimit * 10 -> frac_ok fr ->
  exists n, nb_run ((d1 :: ds) ++ x2e :: fr) = Some (NFrac, n, false) /\
            nBig n = [] /\ nExp n = 0 /\ nNegExp n = false /\ fill_text n = (d1 :: ds) ++ x2e :: fr.
Proof.
  intros H1 Hds Hlim (Hne & Hfr & Hlen).
  destruct fr as [|f1 fs]; [contradiction Hne; reflexivity|].
  set (V := digits_val (d1 :: ds)).
  exists (fold_left add_frac (f1 :: fs) (set_I num_reset V)).
  assert (Hs0 : fstate (set_I num_reset V) V 0 1 false) by (repeat split).
  pose proof (frac_fold (f1 :: fs) _ _ _ Hfr Hlen Hs0) as Hs.
  pose proof (fill_text_frac _ V false (f1 :: fs) Hne Hfr Hlen Hs) as Ht.
  destruct Hs as (Hb & Hi & Hf & Hd & He & Hn).
  split.
  - rewrite (nb_run_app (d1 :: ds) _ NInt (set_I num_reset V) true (nb_run_int d1 ds H1 Hds Hlim)).
    apply (dot_frac_cont NInt (set_I num_reset V) true f1 fs (or_introl eq_refl) eq_refl Hfr).
  - split; [exact Hb|]. split; [exact He|]. split.
    + (* add_frac never touches NegExp *)
      assert (G : forall l n0, nNegExp n0 = false -> nNegExp (fold_left add_frac l n0) = false).
      { induction l as [|b l IH]; intros n0 H0; simpl; [exact H0|]. apply IH.
        unfold add_frac. destruct (is_big n0); [exact H0|].
        destruct (cmpz _ _ _); [|exact H0].
        match goal with |- context [if ?c then _ else _] => destruct c end; exact H0. }
      apply G. reflexivity.
    + unfold as_num, is_big in Ht. rewrite Hb, Hd, He in Ht.
      destruct ((10 ^ Z.of_nat (length (f1 :: fs)) =? 1) && (0 =? 0)) eqn:E.
      * apply andb_true_iff in E as [E _]. apply Z.eqb_eq in E.
        assert (10 <= 10 ^ Z.of_nat (length (f1 :: fs))).
        { simpl length. replace (Z.of_nat (S (length fs))) with (Z.succ (Z.of_nat (length fs))) by lia.
          rewrite Z.pow_succ_r by lia. pose proof (Z.pow_pos_nonneg 10 (Z.of_nat (length fs)) ltac:(lia) ltac:(lia)). lia. }
        lia.
      * injection Ht as Ht. etransitivity; [exact Ht|]. unfold V. rewrite format_uint_digits; [reflexivity | exists d1, ds; auto|].
        destruct (is_19_facts d1 H1) as (_ & _ & Hd1). constructor; assumption.
Qed.

Theorem exp_literal_dec d1 ds fr e sg es :
  is_19 d1 = true -> all_digits ds -> digits_val (d1 :: ds) < gen_BigLimit * 10 -> frac_ok fr ->
  is_eb e -> sign_ok sg -> all_digits es -> 0 < digits_val es <= 1022 ->
  as_num (num_of (((d1 :: ds) ++ x2e :: fr) ++ e :: sg ++ es)) =
  JFloat (((d1 :: ds) ++ x2e :: fr) ++ x65 :: (if sign_neg sg then [x2d] else []) ++ format_uint (digits_val es)).
Proof.
  intros H1 Hds Hlim Hfr He Hsg Hes Hval.
  destruct (nb_run_dec d1 ds fr H1 Hds Hlim Hfr) as (n & Hrun & Hb & He0 & Hne & Htxt).
  rewrite (exp_literal _ NFrac n false e sg es Hrun (or_intror (or_intror eq_refl)) Hb He0 Hne He Hsg Hes Hval).
  rewrite Htxt. reflexivity.
Qed.
