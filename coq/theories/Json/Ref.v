(* Reference recogniser/parser for RFC 8259, written from the grammar, with no tables:
   the specification the table-driven front-ends are proved equivalent to. States are named
   after grammar positions. It reuses only the container-stack vocabulary (sop/view) of
   Machine.v. Values are built in structured frames, so no step can fail at run time. *)
From Coq Require Import Init.Byte NArith ZArith List Bool Lia.
Require Import Ojg.Base.Bytes Ojg.Base.Jv Ojg.Base.Utf8 Ojg.Json.Machine.
Import ListNotations.
Open Scope Z_scope.

Inductive lit : Set := LTrue | LFalse | LNull.
Inductive nphase : Set := NNeg | NZero | NInt | NDot | NFrac | NESign | NEZero | NExp.

Inductive rmode : Set :=
  | RTop                         (* top level, before a value *)
  | RDone                        (* single-document mode: after the value *)
  | RVal                         (* a value must follow (after ':' or ',' in an array) *)
  | RArr0                        (* after '[': value or ']' *)
  | RObj0                        (* after '{': key or '}' *)
  | RKeyReq                      (* after ',' in an object: key *)
  | RColon                       (* after a key: ':' *)
  | RAfter                       (* after a value inside a container *)
  | RStr (key : bool)
  | REsc (key : bool)
  | RHex (key : bool) (n : Z)    (* n hex digits of \uXXXX read, 0..3 *)
  | RLit (l : lit) (n : Z)       (* n characters of the literal matched, 1.. *)
  | RNum (p : nphase).

Definition is_ws (b : byte) : bool :=
  beqb b x20 || beqb b x09 || beqb b x0a || beqb b x0d.
Definition is_19 (b : byte) : bool := (49 <=? b2z b) && (b2z b <=? 57).
Definition is_hex (b : byte) : bool :=
  is_digit b || ((97 <=? b2z b) && (b2z b <=? 102)) || ((65 <=? b2z b) && (b2z b <=? 70)).
Definition is_esc (b : byte) : bool :=
  beqb b x22 || beqb b x5c || beqb b x2f || beqb b x62 || beqb b x66 || beqb b x6e || beqb b x72 || beqb b x74.
Definition lit_word (l : lit) : bytes :=
  match l with LTrue => w_true | LFalse => w_false | LNull => w_null end.

Section Ref.
  Variable one : bool.

  Definition after_value (op : sop) (v : view) : rmode :=
    if empty_after op v then (if one then RDone else RTop) else RAfter.

  (* a byte that may follow a complete value inside/outside a container *)
  Definition delim (v : view) (b : byte) : option (rmode * sop) :=
    if is_ws b then Some (after_value SNone v, SNone)
    else if beqb b x2c then
      match vtop v with Some true => Some (RKeyReq, SNone) | Some false => Some (RVal, SNone) | None => None end
    else if beqb b x5d then
      match vtop v with Some false => Some (after_value SPop v, SPop) | _ => None end
    else if beqb b x7d then
      match vtop v with Some true => Some (after_value SPop v, SPop) | _ => None end
    else None.

  Definition value_start (b : byte) : option (rmode * sop) :=
    if beqb b x22 then Some (RStr false, SNone)
    else if beqb b x2d then Some (RNum NNeg, SNone)
    else if beqb b x30 then Some (RNum NZero, SNone)
    else if is_19 b then Some (RNum NInt, SNone)
    else if beqb b x5b then Some (RArr0, SPush false)
    else if beqb b x7b then Some (RObj0, SPush true)
    else if beqb b x74 then Some (RLit LTrue 1, SNone)
    else if beqb b x66 then Some (RLit LFalse 1, SNone)
    else if beqb b x6e then Some (RLit LNull 1, SNone)
    else None.

  Definition is_e (b : byte) : bool := beqb b x65 || beqb b x45.

  Definition rstep (m : rmode) (v : view) (b : byte) : option (rmode * sop) :=
    match m with
    | RTop | RVal => if is_ws b then Some (m, SNone) else value_start b
    | RArr0 =>
        if is_ws b then Some (m, SNone)
        else if beqb b x5d then Some (after_value SPop v, SPop)
        else value_start b
    | RObj0 =>
        if is_ws b then Some (m, SNone)
        else if beqb b x22 then Some (RStr true, SNone)
        else if beqb b x7d then Some (after_value SPop v, SPop)
        else None
    | RKeyReq => if is_ws b then Some (m, SNone) else if beqb b x22 then Some (RStr true, SNone) else None
    | RColon => if is_ws b then Some (m, SNone) else if beqb b x3a then Some (RVal, SNone) else None
    | RAfter => delim v b
    | RDone => if is_ws b then Some (m, SNone) else None
    | RStr k =>
        if beqb b x22 then Some (if k then RColon else after_value SNone v, SNone)
        else if beqb b x5c then Some (REsc k, SNone)
        else if b2z b <? 32 then None
        else Some (m, SNone)
    | REsc k =>
        if is_esc b then Some (RStr k, SNone)
        else if beqb b x75 then Some (RHex k 0, SNone)
        else None
    | RHex k n =>
        if is_hex b then Some (if n =? 3 then RStr k else RHex k (n + 1), SNone) else None
    | RLit l n =>
        match word_at (lit_word l) n with
        | Some ch =>
            if beqb ch b then
              Some (if n + 1 =? Z.of_nat (length (lit_word l)) then after_value SNone v else RLit l (n + 1), SNone)
            else None
        | None => None
        end
    | RNum NNeg => if beqb b x30 then Some (RNum NZero, SNone) else if is_19 b then Some (RNum NInt, SNone) else None
    | RNum NZero =>
        if beqb b x2e then Some (RNum NDot, SNone) else if is_e b then Some (RNum NESign, SNone) else delim v b
    | RNum NInt =>
        if is_digit b then Some (m, SNone)
        else if beqb b x2e then Some (RNum NDot, SNone) else if is_e b then Some (RNum NESign, SNone) else delim v b
    | RNum NDot => if is_digit b then Some (RNum NFrac, SNone) else None
    | RNum NFrac =>
        if is_digit b then Some (m, SNone) else if is_e b then Some (RNum NESign, SNone) else delim v b
    | RNum NESign =>
        if beqb b x2b || beqb b x2d then Some (RNum NEZero, SNone)
        else if is_digit b then Some (RNum NExp, SNone) else None
    | RNum NEZero => if is_digit b then Some (RNum NExp, SNone) else None
    | RNum NExp => if is_digit b then Some (m, SNone) else delim v b
    end.

  Definition num_final (p : nphase) : bool :=
    match p with NZero | NInt | NFrac | NExp => true | _ => false end.

  Definition rend (m : rmode) (v : view) : bool :=
    match v with
    | VEmpty => match m with RTop | RDone => true | RNum p => num_final p | _ => false end
    | _ => false
    end.

  Fixpoint rrun (m : rmode) (s : list bool) (w : bytes) : option (rmode * list bool) :=
    match w with
    | [] => Some (m, s)
    | b :: w' =>
        match rstep m (view_of s) b with
        | Some (m', op) => rrun m' (apply_sop op s) w'
        | None => None
        end
    end.

  Definition ref_accepts (w : bytes) : bool :=
    match rrun RTop [] w with
    | Some (m, s) => rend m (view_of s)
    | None => false
    end.
End Ref.
