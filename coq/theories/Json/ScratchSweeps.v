(* discharged scratch sweeps over the regenerated tables *)
From Coq Require Import Init.Byte NArith ZArith List Bool.
Require Import Ojg.Base.Bytes Ojg.Gen.OjMaps Ojg.Json.Machine Ojg.Json.Sweep Ojg.Json.Frontends Ojg.Json.Scratch.
Lemma ssweep_parser : scratch_sweep fe_parser = true. Proof. vm_compute. reflexivity. Qed.
Lemma ssweep_validator : scratch_sweep fe_validator = true. Proof. vm_compute. reflexivity. Qed.
Lemma ssweep_tokenizer : scratch_sweep fe_tokenizer = true. Proof. vm_compute. reflexivity. Qed.
Lemma ssweep_gen : scratch_sweep fe_gen = true. Proof. vm_compute. reflexivity. Qed.
Lemma ssweep_parser_multi : scratch_sweep fe_parser_multi = true. Proof. vm_compute. reflexivity. Qed.
Lemma ssweep_validator_multi : scratch_sweep fe_validator_multi = true. Proof. vm_compute. reflexivity. Qed.
Lemma ssweep_tokenizer_multi : scratch_sweep fe_tokenizer_multi = true. Proof. vm_compute. reflexivity. Qed.
Lemma ssweep_gen_multi : scratch_sweep fe_gen_multi = true. Proof. vm_compute. reflexivity. Qed.
