(* C02, decimal literals: for a literal  [-] int . frac  (no exponent, at most 18 fraction
   digits, integer part below the scan-ahead threshold) the number builder ends in a state whose
   FillBig text IS the literal. The delivered float64 is strconv.ParseFloat of that text
   (gen.Number.AsNum), i.e. of the literal itself. *)
From Coq Require Import Init.Byte NArith ZArith List Bool Lia.
Require Import Ojg.Base.Bytes Ojg.Base.Jv Ojg.Gen.Consts Ojg.Gen.OjMaps Ojg.Json.Number Ojg.Json.NumberFacts Ojg.Json.Machine Ojg.Json.Ref Ojg.Json.ValueSim Ojg.Json.IntLit Ojg.Json.Fmt.
Import ListNotations.
Open Scope Z_scope.

(* number state with an integer part, a fraction of [k] digits and nothing else *)
Definition fstate (n : num) (i f d : Z) (neg : bool) : Prop :=
  nBig n = [] /\ nI n = i /\ nFrac n = f /\ nDiv n = d /\ nExp n = 0 /\ nNeg n = neg.

Lemma add_frac_consts :
  Number.lit gen_num_AddFrac_ops 1 = 0 /\ Number.lit gen_num_AddFrac_lits 1 = 922337203685477580 /\
  Number.lit gen_num_AddFrac_lits 2 = 10 /\ Number.lit gen_num_AddFrac_lits 3 = 48 /\ Number.lit gen_num_AddFrac_lits 4 = 10 /\
  Number.lit gen_num_AddFrac_ops 2 = 0 /\ Number.lit gen_num_AddFrac_lits 5 = 9223372036854775807.
Proof. vm_compute. repeat split; reflexivity. Qed.

Lemma add_frac_state n i f d neg b :
  fstate n i f d neg -> 0 <= f < d -> d < 922337203685477580 -> digit_ok b ->
  fstate (add_frac n b) i (f * 10 + digit_val b) (d * 10) neg.
Proof.
  intros (Hb & Hi & Hf & Hd & He & Hn) Hfd Hlim Hdig.
  destruct add_frac_consts as (O1 & L1 & L2 & L3 & L4 & O2 & L5).
  unfold add_frac, is_big. rewrite Hb, O1, L1, L2, L3, L4, O2, L5. unfold cmpz. simpl (_ =? _).
  rewrite Hd, Hf. unfold digit_ok, digit_val in *.
  destruct (d <? 922337203685477580) eqn:E; [|apply Z.ltb_ge in E; lia].
  assert (W1 : wrap64 (f * 10 + (b2z b - 48)) = f * 10 + (b2z b - 48)).
  { unfold wrap64, two64. apply Z.mod_small. lia. }
  assert (W2 : wrap64 (d * 10) = d * 10).
  { unfold wrap64, two64. apply Z.mod_small. lia. }
  rewrite W1, W2.
  destruct (9223372036854775807 <? f * 10 + (b2z b - 48)) eqn:E2; [apply Z.ltb_lt in E2; lia|].
  unfold fstate; simpl. repeat split; assumption.
Qed.

Lemma val_from_pow fs : forall a, val_from a fs = a * 10 ^ Z.of_nat (length fs) + val_from 0 fs.
Proof.
  induction fs as [|b fs IH]; intro a.
  - unfold val_from. simpl. lia.
  - unfold val_from in *. cbn [fold_left length]. rewrite (IH (a * 10 + digit_val b)), (IH (0 * 10 + digit_val b)).
    replace (Z.of_nat (S (length fs))) with (Z.succ (Z.of_nat (length fs))) by lia.
    rewrite Z.pow_succ_r by lia. ring.
Qed.

Lemma val_from0_lt fs : all_digits fs -> 0 <= val_from 0 fs < 10 ^ Z.of_nat (length fs).
Proof.
  induction fs as [|b fs IH] using rev_ind; intro H.
  - unfold val_from. simpl. lia.
  - destruct (all_digits_snoc _ _ H) as [Hl Hb]. specialize (IH Hl).
    pose proof (is_digit_ok b Hb) as Hd. unfold digit_ok in Hd.
    unfold val_from in *. rewrite fold_left_app. simpl. rewrite app_length. simpl.
    replace (Z.of_nat (length fs + 1)) with (Z.succ (Z.of_nat (length fs))) by lia.
    rewrite Z.pow_succ_r by lia. lia.
Qed.

(* the fraction digits, one by one *)
Lemma frac_fold fs : forall n i neg,
  all_digits fs -> (length fs <= 18)%nat -> fstate n i 0 1 neg ->
  fstate (fold_left add_frac fs n) i (val_from 0 fs) (10 ^ Z.of_nat (length fs)) neg.
Proof.
  induction fs as [|b fs IH] using rev_ind; intros n i neg H Hlen Hs.
  - simpl. unfold val_from. simpl. exact Hs.
  - destruct (all_digits_snoc _ _ H) as [Hl Hb].
    rewrite app_length in Hlen. simpl in Hlen.
    rewrite fold_left_app. simpl.
    specialize (IH n i neg Hl ltac:(lia) Hs).
    pose proof (val_from0_lt fs Hl) as Hlt.
    assert (Hp : 10 ^ Z.of_nat (length fs) < 922337203685477580).
    { apply Z.le_lt_trans with (10 ^ 17); [apply Z.pow_le_mono_r; lia | reflexivity]. }
    pose proof (add_frac_state _ _ _ _ _ b IH Hlt Hp (is_digit_ok b Hb)) as Hs'.
    unfold val_from. rewrite fold_left_app. simpl. rewrite app_length. simpl.
    replace (Z.of_nat (length fs + 1)) with (Z.succ (Z.of_nat (length fs))) by lia.
    rewrite Z.pow_succ_r by lia. rewrite (Z.mul_comm 10). exact Hs'.
Qed.

Lemma nnext_frac_digit b : is_digit b = true -> nnext NFrac b = Some NFrac.
Proof. intro H. unfold nnext. simpl. rewrite H. reflexivity. Qed.
Lemma nnext_dot_digit b : is_digit b = true -> nnext NDot b = Some NFrac.
Proof. intro H. unfold nnext. simpl. rewrite H. reflexivity. Qed.

Lemma frac_cont fs : forall n, all_digits fs ->
  nb_cont NFrac n false fs = Some (NFrac, fold_left add_frac fs n, false).
Proof.
  induction fs as [|b fs IH]; intros n H; simpl; [reflexivity|].
  inversion H; subst. rewrite (nnext_frac_digit b H2).
  unfold nupd, exp_act. rewrite H2. apply IH. exact H3.
Qed.

(* from the end of the integer part (phase NInt or NZero) through ". frac" *)
Lemma dot_frac_cont p n f f1 fs :
  (p = NInt \/ p = NZero) -> is_big n = false -> all_digits (f1 :: fs) ->
  nb_cont p n f (x2e :: f1 :: fs) = Some (NFrac, fold_left add_frac (f1 :: fs) n, false).
Proof.
  intros Hp Hbig H. inversion H; subst.
  assert (Hnx : nnext p x2e = Some NDot) by (destruct Hp; subst p; reflexivity).
  assert (Hup : nupd p x2e n f = (n, false)).
  { unfold nupd. destruct Hp; subst p; simpl; rewrite Hbig; reflexivity. }
  cbn [nb_cont]. rewrite Hnx, Hup. rewrite (nnext_dot_digit f1 H2).
  unfold nupd at 1. unfold exp_act. simpl fold_left. apply frac_cont. exact H3.
Qed.

Lemma fill_consts :
  Number.lit gen_num_FillBig_ops 0 = 0 /\ Number.lit gen_num_FillBig_lits 0 = 1 /\
  Number.lit gen_num_FillBig_ops 1 = 1 /\ Number.lit gen_num_FillBig_lits 1 = 1000000000000000000 /\
  Number.lit gen_num_FillBig_ops 2 = 0 /\ Number.lit gen_num_FillBig_lits 2 = 0.
Proof. vm_compute. repeat split; reflexivity. Qed.

(* the text of a state with a fraction: sign, integer part, point, the fraction digits *)
Lemma fill_text_frac n i neg fs :
  fs <> [] -> all_digits fs -> (length fs <= 18)%nat ->
  fstate n i (val_from 0 fs) (10 ^ Z.of_nat (length fs)) neg ->
  as_num n = JFloat ((if neg then [x2d] else []) ++ format_uint i ++ x2e :: fs).
Proof.
  intros Hne H Hlen (Hb & Hi & Hf & Hd & He & Hn).
  destruct fill_consts as (O0 & L0 & O1 & L1 & O2 & L2).
  pose proof (val_from0_lt fs H) as Hlt.
  assert (Hge : 10 <= 10 ^ Z.of_nat (length fs)).
  { destruct fs as [|b fs]; [contradiction Hne; reflexivity|]. simpl length.
    replace (Z.of_nat (S (length fs))) with (Z.succ (Z.of_nat (length fs))) by lia.
    rewrite Z.pow_succ_r by lia. pose proof (Z.pow_pos_nonneg 10 (Z.of_nat (length fs)) ltac:(lia) ltac:(lia)). lia. }
  assert (Hle : 10 ^ Z.of_nat (length fs) <= 1000000000000000000).
  { apply Z.le_trans with (10 ^ 18); [apply Z.pow_le_mono_r; lia | reflexivity]. }
  unfold as_num, is_big. rewrite Hb, Hd, He.
  destruct (10 ^ Z.of_nat (length fs) =? 1) eqn:E1; [apply Z.eqb_eq in E1; lia|]. simpl andb. cbv iota.
  unfold fill_text. rewrite O0, L0, O1, L1, O2, L2, Hn, Hi, Hd, Hf, He. unfold cmpz. simpl (_ =? _).
  destruct (1 <? 10 ^ Z.of_nat (length fs)) eqn:E2; [|apply Z.ltb_ge in E2; lia].
  destruct (1000000000000000000 <=? val_from 0 fs) eqn:E3; [apply Z.leb_le in E3; lia|].
  simpl (0 <? 0). cbv iota.
  assert (W : wrap64 (val_from 0 fs + 10 ^ Z.of_nat (length fs)) = digits_val (x31 :: fs)).
  { rewrite digits_val_cons. change (digit_val x31) with 1. rewrite (val_from_pow fs 1).
    unfold wrap64, two64. rewrite Z.mod_small by lia. lia. }
  rewrite W. rewrite format_uint_digits; [| exists x31, fs; auto | constructor; [reflexivity | exact H]].
  simpl tl. rewrite app_nil_r. reflexivity.
Qed.

Lemma nb_cont_app a : forall b p n f,
  nb_cont p n f (a ++ b) =
  match nb_cont p n f a with Some (p', n', f') => nb_cont p' n' f' b | None => None end.
Proof.
  induction a as [|x a IH]; intros b p n f; simpl; [reflexivity|].
  destruct (nnext p x); [|reflexivity]. destruct (nupd p x n f). apply IH.
Qed.

Lemma slow_fold_plain (ds : bytes) (neg : bool) :
  Forall digit_ok ds -> digits_val ds <= max_int64 ->
  let n := fold_left add_digit ds (if neg then set_neg num_reset else num_reset) in
  plain n (digits_val ds) /\ nNeg n = neg.
Proof.
  intros Hds Hfit n. subst n. induction ds as [|b ds IH] using rev_ind.
  - destruct neg; unfold plain, digits_val; simpl; repeat split; reflexivity.
  - rewrite fold_left_app. simpl.
    pose proof (digits_val_prefix_le ds b Hds) as Hle.
    apply Forall_app in Hds as [H1 H2]. inversion H2; subst.
    specialize (IH H1 ltac:(lia)). destruct IH as [IH1 IH2].
    pose proof (add_digit_plain _ _ b IH1 (digits_val_nonneg ds H1) H3) as Hs. simpl in Hs.
    rewrite digits_val_snoc in *. specialize (Hs Hfit). destruct Hs as [Hs1 Hs2].
    split; [exact Hs1|congruence].
Qed.

Definition frac_ok (fr : bytes) : Prop := fr <> [] /\ all_digits fr /\ (length fr <= 18)%nat.

(* d1 ds . fr   with d1 in 1..9 *)
Theorem dec_literal_plain d1 ds fr :
  is_19 d1 = true -> all_digits ds -> digits_val (d1 :: ds) < gen_BigLimit * 10 -> frac_ok fr ->
  as_num (num_of ((d1 :: ds) ++ x2e :: fr)) = JFloat ((d1 :: ds) ++ x2e :: fr).
Proof.
  intros H1 Hds Hlim (Hne & Hfr & Hlen). destruct (is_19_facts d1 H1) as (Hm & Hz & Hd1).
  pose proof (is_digit_ok d1 Hd1) as Hok. unfold digit_ok in Hok.
  destruct fr as [|f1 fs]; [contradiction Hne; reflexivity|].
  assert (Hv : digits_val (d1 :: ds) = val_from (digit_val d1) ds) by reflexivity.
  unfold num_of. simpl app. unfold nb_run, nstart. rewrite Hm, Hz, H1.
  rewrite nb_cont_app.
  rewrite (fast_cont ds (digit_val d1) Hds ltac:(lia)) by (intros _; rewrite <- Hv; exact Hlim).
  rewrite <- Hv.
  rewrite (dot_frac_cont NInt (set_I num_reset (digits_val (d1 :: ds))) true f1 fs (or_introl eq_refl) eq_refl Hfr).
  set (V := digits_val (d1 :: ds)).
  assert (Hs0 : fstate (set_I num_reset V) V 0 1 false) by (repeat split).
  pose proof (frac_fold (f1 :: fs) _ _ _ Hfr Hlen Hs0) as Hs.
  rewrite (fill_text_frac _ V false (f1 :: fs) Hne Hfr Hlen Hs).
  unfold V. rewrite format_uint_digits; [reflexivity | exists d1, ds; auto | constructor; assumption].
Qed.

(* 0 . fr *)
Theorem dec_literal_zero fr : frac_ok fr -> as_num (num_of (x30 :: x2e :: fr)) = JFloat (x30 :: x2e :: fr).
Proof.
  intros (Hne & Hfr & Hlen). destruct fr as [|f1 fs]; [contradiction Hne; reflexivity|].
  unfold num_of, nb_run. change (nstart x30) with (Some (NZero, num_reset, false)). cbv iota beta.
  rewrite (dot_frac_cont NZero num_reset false f1 fs (or_intror eq_refl) eq_refl Hfr).
  assert (Hs0 : fstate num_reset 0 0 1 false) by (repeat split).
  pose proof (frac_fold (f1 :: fs) _ _ _ Hfr Hlen Hs0) as Hs.
  rewrite (fill_text_frac _ 0 false (f1 :: fs) Hne Hfr Hlen Hs). reflexivity.
Qed.

(* - d1 ds . fr *)
Theorem dec_literal_neg d1 ds fr :
  is_19 d1 = true -> all_digits ds -> digits_val (d1 :: ds) <= max_int64 -> frac_ok fr ->
  as_num (num_of (x2d :: (d1 :: ds) ++ x2e :: fr)) = JFloat (x2d :: (d1 :: ds) ++ x2e :: fr).
Proof.
  intros H1 Hds Hlim (Hne & Hfr & Hlen). destruct (is_19_facts d1 H1) as (Hm & Hz & Hd1).
  destruct fr as [|f1 fs]; [contradiction Hne; reflexivity|].
  assert (Hnx : nnext NNeg d1 = Some NInt). { unfold nnext. simpl. rewrite Hz, H1. reflexivity. }
  unfold num_of. simpl app. unfold nb_run. change (nstart x2d) with (Some (NNeg, set_neg num_reset, false)). cbv iota beta.
  cbn [nb_cont]. rewrite Hnx. unfold nupd at 1. unfold exp_act. rewrite Hz.
  rewrite nb_cont_app. rewrite (slow_cont ds _ Hds).
  change (fold_left add_digit ds (add_digit (set_neg num_reset) d1)) with (fold_left add_digit (d1 :: ds) (set_neg num_reset)).
  assert (Hall : Forall digit_ok (d1 :: ds)).
  { constructor; [apply is_digit_ok; exact Hd1|]. eapply Forall_impl; [|exact Hds]. intros a Ha. apply is_digit_ok. exact Ha. }
  destruct (slow_fold_plain (d1 :: ds) true Hall Hlim) as [(Pb & Pi & Pf & Pd & Pe) Pn].
  set (n1 := fold_left add_digit (d1 :: ds) (set_neg num_reset)) in *.
  assert (Hbig : is_big n1 = false) by (unfold is_big; rewrite Pb; reflexivity).
  rewrite (dot_frac_cont NInt n1 false f1 fs (or_introl eq_refl) Hbig Hfr).
  assert (Hs0 : fstate n1 (digits_val (d1 :: ds)) 0 1 true) by (repeat split; assumption).
  pose proof (frac_fold (f1 :: fs) _ _ _ Hfr Hlen Hs0) as Hs.
  rewrite (fill_text_frac _ _ true (f1 :: fs) Hne Hfr Hlen Hs).
  rewrite format_uint_digits; [reflexivity | exists d1, ds; auto | constructor; assumption].
Qed.
