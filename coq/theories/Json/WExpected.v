(* C04: the tree of the round-trip theorem (toref) is the harness' expected tree with numbers as
   their text, whenever the member names of every object stay distinct after sanitizing. *)
From Coq Require Import Init.Byte NArith ZArith List Bool Lia.
Require Import Ojg.Base.Bytes Ojg.Base.Jv Ojg.Json.Writer Ojg.Json.WRound.
Import ListNotations.

Fixpoint numtext (v : jv) : jv :=
  match v with
  | JInt z => JBig (format_int z)
  | JFloat t => JBig t
  | JArr l => JArr (map numtext l)
  | JObj m => JObj (map (fun kv => (fst kv, numtext (snd kv))) m)
  | _ => v
  end.

(* member names pairwise distinct, at every level *)
Fixpoint distinct_keys (v : jv) : Prop :=
  match v with
  | JArr l => (fix go (l : list jv) : Prop := match l with [] => True | x :: l' => distinct_keys x /\ go l' end) l
  | JObj m => NoDup (map fst m) /\
              (fix go (m : list (bytes * jv)) : Prop := match m with [] => True | (_, x) :: m' => distinct_keys x /\ go m' end) m
  | _ => True
  end.

Lemma bytes_eqb_neq a b : a <> b -> bytes_eqb a b = false.
Proof. intro H. destruct (bytes_eqb a b) eqn:E; [|reflexivity]. apply bytes_eqb_eq in E. contradiction. Qed.

Lemma map_set_notin k v acc : ~ In k (map fst acc) -> map_set k v acc = acc ++ [(k, v)].
Proof.
  induction acc as [|[k' v'] acc IH]; intro H; simpl; [reflexivity|].
  simpl in H. rewrite bytes_eqb_neq by (intro E; apply H; left; symmetry; exact E).
  rewrite IH by (intro E; apply H; right; exact E). reflexivity.
Qed.

Section E.
  Variable o : wopts.

  (* the members expected keeps, as (sanitized name, value) pairs *)
  Definition exp_members (m : list (bytes * jv)) : list (bytes * jv) :=
    (fix go (m : list (bytes * jv)) : list (bytes * jv) :=
       match m with
       | [] => []
       | (k, x) :: m' => if omitted o x then go m' else (sanitize k, expected o x) :: go m'
       end) m.

  Lemma mfold_distinct l : forall acc,
    NoDup (map fst acc ++ map (fun kv => sanitize (fst kv)) l) ->
    mfold o l acc = acc ++ map (fun kv => (sanitize (fst kv), toref o (snd kv))) l.
  Proof.
    induction l as [|[k x] l IH]; intros acc H; simpl.
    - rewrite app_nil_r. reflexivity.
    - unfold mfold in *. simpl.
      assert (Hk : ~ In (sanitize k) (map fst acc)).
      { intro Hin. apply NoDup_remove_2 in H. apply H. apply in_or_app. left. exact Hin. }
      rewrite (map_set_notin _ _ _ Hk). rewrite IH.
      + rewrite <- app_assoc. reflexivity.
      + rewrite map_app. simpl. rewrite <- app_assoc. simpl.
        apply NoDup_remove_1 in H as H1.
        assert (Hperm : NoDup (sanitize k :: map fst acc ++ map (fun kv => sanitize (fst kv)) l)).
        { constructor; [apply NoDup_remove_2 in H; exact H | exact H1]. }
        clear -Hperm. revert Hperm. generalize (map (fun kv : bytes * jv => sanitize (fst kv)) l) as r. generalize (map fst acc) as a.
        intros a r Hn. apply NoDup_cons_iff in Hn as [Hni Hnd].
        induction a as [|y a IHa]; simpl in *.
        * constructor; assumption.
        * apply NoDup_cons_iff in Hnd as [Hy Hnd']. constructor.
          -- intro Hin. apply in_app_or in Hin as [Hin|[Hin|Hin]].
             ++ apply Hy. apply in_or_app. left. exact Hin.
             ++ apply Hni. left. symmetry. exact Hin.
             ++ apply Hy. apply in_or_app. right. exact Hin.
          -- apply IHa; [intro Hin; apply Hni; right; exact Hin | exact Hnd'].
  Qed.

  Lemma exp_members_kept m : exp_members m = map (fun kv => (sanitize (fst kv), expected o (snd kv))) (kept o m).
  Proof.
    induction m as [|[k x] m IH]; [reflexivity|]. unfold kept in *. simpl. destruct (omitted o x); simpl; [exact IH | rewrite <- IH; reflexivity].
  Qed.

  Lemma expected_obj m : expected o (JObj m) = JObj (exp_members m).
  Proof. reflexivity. Qed.

  Theorem toref_expected v : distinct_keys (expected o v) -> toref o v = numtext (expected o v).
  Proof.
    induction v using jv_ind2; intro HD; try reflexivity.
    - (* arrays *)
      simpl. f_equal. simpl in HD.
      induction l as [|x l IHl]; [reflexivity|]. inversion H; subst. simpl in HD. destruct HD as [Hx Hl].
      simpl. f_equal; [apply H2; exact Hx | apply IHl; assumption].
    - (* objects *)
      rewrite toref_obj, expected_obj. simpl numtext. f_equal.
      rewrite expected_obj in HD. simpl in HD. destruct HD as [Hnd Hmem].
      rewrite exp_members_kept in *.
      rewrite mfold_distinct.
      + simpl. rewrite map_map. simpl.
        assert (HF : Forall (fun kv => distinct_keys (expected o (snd kv)) -> toref o (snd kv) = numtext (expected o (snd kv))) (kept o m)).
        { unfold kept. rewrite Forall_forall in *. intros kv Hin. apply filter_In in Hin as [Hin _]. apply (H kv Hin). }
        clear H Hnd. induction (kept o m) as [|[k x] l IHl]; [reflexivity|].
        simpl in *. destruct Hmem as [Hx Hl]. inversion HF; subst. simpl in *.
        f_equal; [f_equal; auto | apply IHl; assumption].
      + simpl. rewrite map_map in Hnd. simpl in Hnd. exact Hnd.
  Qed.
End E.
