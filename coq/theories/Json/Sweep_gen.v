(* The discharged sweeps: vm_compute over the generated tables, one file per front-end so they
   build in parallel. *)
From Coq Require Import Init.Byte NArith ZArith List Bool.
Require Import Ojg.Base.Bytes Ojg.Gen.OjMaps Ojg.Json.Machine Ojg.Json.Ref Ojg.Json.Sweep Ojg.Json.Frontends.
Lemma sweep_gen : sweep_ok true fe_gen = true. Proof. vm_compute. reflexivity. Qed.
Lemma sweep_gen_multi : sweep_ok false fe_gen_multi = true. Proof. vm_compute. reflexivity. Qed.
