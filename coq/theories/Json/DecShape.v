(* decimal texts [-]int.frac (no exponent, at most 18 fraction digits) are JSON numbers whose leaf
   is the float with that very text *)
From Coq Require Import Init.Byte NArith ZArith List Bool Lia.
Require Import Ojg.Base.Bytes Ojg.Base.Jv Ojg.Gen.Consts Ojg.Json.Number Ojg.Json.NumberFacts Ojg.Json.Machine Ojg.Json.Ref Ojg.Json.ValueSim Ojg.Json.IntLit Ojg.Json.Fmt Ojg.Json.Dec Ojg.Json.Expo Ojg.Json.Literals Ojg.Json.WRound.
Import ListNotations.
Open Scope Z_scope.

Definition dec_shape (t : bytes) : Prop :=
  (exists d1 ds fr, is_19 d1 = true /\ all_digits ds /\ digits_val (d1 :: ds) < 9223372036854775800 /\ frac_ok fr /\ t = (d1 :: ds) ++ x2e :: fr) \/
  (exists fr, frac_ok fr /\ t = x30 :: x2e :: fr) \/
  (exists d1 ds fr, is_19 d1 = true /\ all_digits ds /\ digits_val (d1 :: ds) <= max_int64 /\ frac_ok fr /\ t = x2d :: (d1 :: ds) ++ x2e :: fr).

Lemma num_ok_of_run t p n f : nb_run t = Some (p, n, f) -> num_final p = true -> num_ok t = true.
Proof. intros H Hf. unfold num_ok. rewrite H. exact Hf. Qed.

Lemma dec_shape_num_ok t : dec_shape t -> num_ok t = true.
Proof.
  intros [(d1 & ds & fr & H19 & Hds & Hlim & Hfr & ->)|[(fr & Hfr & ->)|(d1 & ds & fr & H19 & Hds & Hlim & Hfr & ->)]].
  - destruct (nb_run_dec d1 ds fr H19 Hds Hlim Hfr) as (n & Hrun & _). eapply num_ok_of_run; [exact Hrun | reflexivity].
  - destruct Hfr as (Hne & Hall & Hlen). destruct fr as [|f1 fs]; [contradiction Hne; reflexivity|].
    unfold num_ok, nb_run. change (nstart x30) with (Some (NZero, num_reset, false)). cbv iota beta.
    rewrite (dot_frac_cont NZero num_reset false f1 fs (or_intror eq_refl) eq_refl Hall). reflexivity.
  - destruct Hfr as (Hne & Hall & Hlen). destruct fr as [|f1 fs]; [contradiction Hne; reflexivity|].
    destruct (is_19_facts d1 H19) as (Hm & Hz & Hd1).
    assert (Hnx : nnext NNeg d1 = Some NInt). { unfold nnext. simpl. rewrite Hz, H19. reflexivity. }
    unfold num_ok. simpl app. unfold nb_run. change (nstart x2d) with (Some (NNeg, set_neg num_reset, false)). cbv iota beta.
    cbn [nb_cont]. rewrite Hnx. unfold nupd at 1. unfold exp_act. rewrite Hz.
    rewrite nb_cont_app. rewrite (slow_cont ds _ Hds).
    assert (Hall' : Forall digit_ok (d1 :: ds)).
    { constructor; [apply is_digit_ok; exact Hd1|]. eapply Forall_impl; [|exact Hds]. intros a Ha. apply is_digit_ok. exact Ha. }
    change (fold_left add_digit ds (add_digit (set_neg num_reset) d1)) with (fold_left add_digit (d1 :: ds) (set_neg num_reset)).
    destruct (slow_fold_plain (d1 :: ds) true Hall' Hlim) as [(Pb & _) _].
    rewrite (dot_frac_cont NInt _ false f1 fs (or_introl eq_refl)); [reflexivity | unfold is_big; rewrite Pb; reflexivity | exact Hall].
Qed.

Lemma dec_shape_leaf K t : dec_shape t -> tr K (JBig t) = JFloat t.
Proof.
  intros [(d1 & ds & fr & H19 & Hds & Hlim & Hfr & ->)|[(fr & Hfr & ->)|(d1 & ds & fr & H19 & Hds & Hlim & Hfr & ->)]].
  - apply leaf_dec_literal_plain; assumption.
  - apply leaf_dec_literal_zero; assumption.
  - apply leaf_dec_literal_neg; assumption.
Qed.
