(* The five strict-JSON front-ends of property C01 as configurations of the machine, 
   (definitions only, so that the model extracts even when a proof breaks). *)
From Coq Require Import Init.Byte NArith ZArith List Bool.
Require Import Ojg.Base.Bytes Ojg.Gen.OjMaps Ojg.Json.Machine.
Require Ojg.Gen.GenMaps.
Import ListNotations.

Definition gen_cfg (one : bool) : cfg :=
  mkCfg GenMaps.tab GenMaps.fin (fun _ => GenMaps.data_escByteMap) KGen one.

Definition fe_parser := oj_cfg KParser true.
Definition fe_validator := oj_cfg KValidator true.
Definition fe_tokenizer := oj_cfg KTokenizer true.
Definition fe_gen := gen_cfg true.
Definition fe_parser_multi := oj_cfg KParser false.
Definition fe_validator_multi := oj_cfg KValidator false.
Definition fe_tokenizer_multi := oj_cfg KTokenizer false.
Definition fe_gen_multi := gen_cfg false.

