(* Finite sweep over the control part + lift by induction to every input:
   each table-driven front-end accepts exactly what the reference recogniser accepts. *)
From Coq Require Import Init.Byte NArith ZArith List Bool Lia.
Require Import Ojg.Base.Bytes Ojg.Base.Jv Ojg.Gen.OjMaps Ojg.Json.Machine Ojg.Json.Ref.
Import ListNotations.
Open Scope Z_scope.

Definition all_bytes : list byte := Eval vm_compute in map (fun n => n2b (N.of_nat n)) (seq 0 256).
Lemma all_bytes_complete_b b : existsb (beqb b) all_bytes = true.
Proof. destruct b; vm_compute; reflexivity. Qed.
Lemma all_bytes_complete b : In b all_bytes.
Proof.
  pose proof (all_bytes_complete_b b) as H. apply existsb_exists in H as [x [Hx He]].
  apply beqb_eq in He. subst x. exact Hx.
Qed.

Lemma mode_eqb_eq a b : mode_eqb a b = true -> a = b.
Proof. destruct a, b; simpl; intro H; try discriminate H; reflexivity. Qed.

Definition all_views : list view := [VEmpty; VOne true; VOne false; VMany true; VMany false].
Lemma all_views_complete v : In v all_views.
Proof. destruct v as [|[]|[]]; simpl; tauto. Qed.

Lemma all_modes_complete m : In m all_modes.
Proof. destruct m; simpl; tauto. Qed.

Definition all_ris : list Z := [0; 1; 2; 3; 4].
Definition nexts : list mode := [M_valueMap; M_colonMap; M_afterMap].

Definition lit_eqb (a b : lit) : bool :=
  match a, b with LTrue, LTrue | LFalse, LFalse | LNull, LNull => true | _, _ => false end.
Definition nphase_eqb (a b : nphase) : bool :=
  match a, b with
  | NNeg, NNeg | NZero, NZero | NInt, NInt | NDot, NDot | NFrac, NFrac
  | NESign, NESign | NEZero, NEZero | NExp, NExp => true
  | _, _ => false
  end.
Definition rmode_eqb (a b : rmode) : bool :=
  match a, b with
  | RTop, RTop | RDone, RDone | RVal, RVal | RArr0, RArr0 | RObj0, RObj0
  | RKeyReq, RKeyReq | RColon, RColon | RAfter, RAfter => true
  | RStr k, RStr k' => Bool.eqb k k'
  | REsc k, REsc k' => Bool.eqb k k'
  | RHex k n, RHex k' n' => Bool.eqb k k' && (n =? n')
  | RLit l n, RLit l' n' => lit_eqb l l' && (n =? n')
  | RNum p, RNum p' => nphase_eqb p p'
  | _, _ => false
  end.
Lemma rmode_eqb_eq a b : rmode_eqb a b = true -> a = b.
Proof.
  destruct a, b; simpl; intro H; try discriminate; try reflexivity;
    repeat match goal with
           | H : _ && _ = true |- _ => apply andb_true_iff in H; destruct H
           | H : Bool.eqb _ _ = true |- _ => apply Bool.eqb_prop in H; subst
           | H : (_ =? _) = true |- _ => apply Z.eqb_eq in H; subst
           end; try reflexivity.
  - destruct l, l0; simpl in *; try discriminate; reflexivity.
  - destruct p, p0; simpl in *; try discriminate; reflexivity.
Qed.

Definition sop_eqb (a b : sop) : bool :=
  match a, b with
  | SNone, SNone | SPop, SPop => true
  | SPush x, SPush y => Bool.eqb x y
  | _, _ => false
  end.
Lemma sop_eqb_eq a b : sop_eqb a b = true -> a = b.
Proof. destruct a, b; simpl; intro H; try discriminate; try reflexivity. apply Bool.eqb_prop in H; subst; reflexivity. Qed.

Definition top_obj (v : view) : bool := match vtop v with Some true => true | _ => false end.
Definition top_arr (v : view) : bool := match vtop v with Some false => true | _ => false end.
Definition nonempty (v : view) : bool := match v with VEmpty => false | _ => true end.

Definition guard (b : bool) (r : rmode) : option rmode := if b then Some r else None.

Section Alpha.
  Variable one : bool.

  (* is the string being read a key? decided by nextMode *)
  Definition str_kind (c : fctl) (v : view) : option bool :=
    match c_next c with
    | M_colonMap => if top_obj v then Some true else None
    | M_afterMap => Some false
    | _ => None
    end.

  (* abstraction to the reference state; None = outside the invariant *)
  Definition alpha (c : fctl) (v : view) : option rmode :=
    if negb ((0 <=? c_ri c) && (c_ri c <=? 4)) then None
    else if negb (existsb (mode_eqb (c_next c)) nexts) then None
    else
    match c_mode c with
    | M_valueMap => match v with VEmpty => Some RTop | _ => guard (top_arr v) RArr0 end
    | M_commaMap => guard (nonempty v) RVal
    | M_afterMap => guard (nonempty v) RAfter
    | M_key1Map => guard (top_obj v) RObj0
    | M_keyMap => guard (top_obj v) RKeyReq
    | M_colonMap => guard (top_obj v) RColon
    | M_spaceMap => guard (one && negb (nonempty v)) RDone
    | M_stringMap => match str_kind c v with Some k => Some (RStr k) | None => None end
    | M_escMap => match str_kind c v with Some k => Some (REsc k) | None => None end
    | M_uMap => match str_kind c v with
                | Some k => guard (c_ri c <=? 3) (RHex k (c_ri c))
                | None => None end
    | M_nullMap => guard (c_ri c <=? 2) (RLit LNull (c_ri c + 1))
    | M_trueMap => guard (c_ri c <=? 2) (RLit LTrue (c_ri c + 1))
    | M_falseMap => guard (c_ri c <=? 3) (RLit LFalse (c_ri c + 1))
    | M_negMap => Some (RNum NNeg)
    | M_zeroMap => Some (RNum NZero)
    | M_digitMap => Some (RNum NInt)
    | M_dotMap => Some (RNum NDot)
    | M_fracMap => Some (RNum NFrac)
    | M_expSignMap => Some (RNum NESign)
    | M_expZeroMap => Some (RNum NEZero)
    | M_expMap => Some (RNum NExp)
    end.

  (* the views the stack can present after an operation *)
  Definition views_after (op : sop) (v : view) : list view :=
    match op, v with
    | SNone, _ => [v]
    | SPush o, VEmpty => [VOne o]
    | SPush o, _ => [VMany o]
    | SPop, VEmpty => []
    | SPop, VOne _ => [VEmpty]
    | SPop, VMany _ => [VOne true; VOne false; VMany true; VMany false]
    end.

  Variable K : cfg.

  Definition cell_ok (c : fctl) (v : view) (b : byte) : bool :=
    match alpha c v with
    | None => true
    | Some r =>
        match ctl_step K c v b, rstep one r v b with
        | CErr, None => true
        | COk c' op _, Some (r', op') =>
            sop_eqb op op' &&
            match op, v with SPop, VEmpty => false | _, _ => true end &&
            forallb (fun v' => match alpha c' v' with Some r'' => rmode_eqb r'' r' | None => false end)
                    (views_after op v)
        | _, _ => false
        end
    end.

  Definition end_ok (c : fctl) (v : view) : bool :=
    match alpha c v with
    | None => true
    | Some r => Bool.eqb (match ctl_end K c v with Some _ => true | None => false end) (rend r v)
    end.

  Definition sweep_ok : bool :=
    forallb (fun m => forallb (fun nx => forallb (fun ri => forallb (fun v =>
      end_ok (mkCtl m nx ri) v &&
      forallb (fun b => cell_ok (mkCtl m nx ri) v b) all_bytes) all_views) all_ris) nexts) all_modes.

  Hypothesis Hsweep : sweep_ok = true.

  Lemma ri_in c : (0 <=? c_ri c) && (c_ri c <=? 4) = true -> In (c_ri c) all_ris.
  Proof.
    intro H. apply andb_true_iff in H as [H1 H2]. apply Z.leb_le in H1, H2.
    unfold all_ris. simpl.
    assert (c_ri c = 0 \/ c_ri c = 1 \/ c_ri c = 2 \/ c_ri c = 3 \/ c_ri c = 4) by lia.
    intuition.
  Qed.

  Lemma sweep_cell c v b : cell_ok c v b = true /\ end_ok c v = true.
  Proof.
    destruct (alpha c v) eqn:A.
    2:{ unfold cell_ok, end_ok. rewrite A. auto. }
    assert (Hri : (0 <=? c_ri c) && (c_ri c <=? 4) = true).
    { unfold alpha in A. destruct ((0 <=? c_ri c) && (c_ri c <=? 4)); [reflexivity | discriminate]. }
    assert (Hnx : In (c_next c) nexts).
    { destruct (existsb (mode_eqb (c_next c)) nexts) eqn:E.
      - apply existsb_exists in E as [x [Hx Hm]]. apply mode_eqb_eq in Hm. subst x. exact Hx.
      - unfold alpha in A. rewrite Hri, E in A. discriminate A. }
    unfold sweep_ok in Hsweep.
    rewrite forallb_forall in Hsweep. specialize (Hsweep _ (all_modes_complete (c_mode c))).
    rewrite forallb_forall in Hsweep. specialize (Hsweep _ Hnx).
    rewrite forallb_forall in Hsweep. specialize (Hsweep _ (ri_in c Hri)).
    rewrite forallb_forall in Hsweep. specialize (Hsweep _ (all_views_complete v)).
    apply andb_true_iff in Hsweep as [He Hc].
    rewrite forallb_forall in Hc. specialize (Hc _ (all_bytes_complete b)).
    destruct c; simpl in *. auto.
  Qed.

  Lemma view_after_in op s :
    match op, view_of s with SPop, VEmpty => False | _, _ => True end ->
    In (view_of (apply_sop op s)) (views_after op (view_of s)).
  Proof.
    destruct op as [|o|]; simpl.
    - auto.
    - destruct s as [|x [|y s]]; simpl; auto.
    - destruct s as [|x [|y [|z s]]]; simpl; try tauto.
      + destruct y; tauto.
      + destruct y; tauto.
  Qed.

  (* simulation, lifted to every input by induction *)
  Lemma sim_run w : forall c s r,
    alpha c (view_of s) = Some r ->
    match ctl_run K c s w, rrun one r s w with
    | Some (c', s'), Some (r', s'') => s' = s'' /\ alpha c' (view_of s') = Some r'
    | None, None => True
    | _, _ => False
    end.
  Proof.
    induction w as [|b w IH]; intros c s r A; simpl.
    - auto.
    - destruct (sweep_cell c (view_of s) b) as [Hc _]. unfold cell_ok in Hc. rewrite A in Hc.
      destruct (ctl_step K c (view_of s) b) as [| |c' op ho] eqn:CS;
        destruct (rstep one r (view_of s) b) as [[r' op']|] eqn:RS; try discriminate; auto.
      apply andb_true_iff in Hc as [Hc Hall]. apply andb_true_iff in Hc as [Hop Hpop].
      apply sop_eqb_eq in Hop. subst op'.
      rewrite forallb_forall in Hall.
      assert (Hin : In (view_of (apply_sop op s)) (views_after op (view_of s))).
      { apply view_after_in. destruct op; auto. destruct (view_of s); auto; discriminate. }
      specialize (Hall _ Hin).
      destruct (alpha c' (view_of (apply_sop op s))) as [r''|] eqn:A'; [|discriminate].
      apply rmode_eqb_eq in Hall. subst r''.
      apply IH. exact A'.
  Qed.

  (* reachable control states are inside the invariant and in step with the reference *)
  Lemma reach_alpha w c s :
    ctl_run K ctl_init [] w = Some (c, s) ->
    exists r, rrun one RTop [] w = Some (r, s) /\ alpha c (view_of s) = Some r.
  Proof.
    intro H. assert (A0 : alpha ctl_init (view_of []) = Some RTop) by reflexivity.
    pose proof (sim_run w ctl_init [] RTop A0) as S. rewrite H in S.
    destruct (rrun one RTop [] w) as [[r s']|]; [|contradiction].
    destruct S as [<- A]. exists r. auto.
  Qed.

  Lemma run_none_iff w : ctl_run K ctl_init [] w = None <-> rrun one RTop [] w = None.
  Proof.
    assert (A0 : alpha ctl_init (view_of []) = Some RTop) by reflexivity.
    pose proof (sim_run w ctl_init [] RTop A0) as S.
    destruct (ctl_run K ctl_init [] w) as [[c s]|]; destruct (rrun one RTop [] w) as [[r s']|];
      try contradiction; split; intro; try discriminate; reflexivity.
  Qed.

  (* C06, control part: no reachable control state faults (index out of range in the literal
     words) on any byte *)
  Theorem ctl_never_faults w c s b :
    ctl_run K ctl_init [] w = Some (c, s) -> ctl_step K c (view_of s) b <> CFault.
  Proof.
    intros H F. destruct (reach_alpha w c s H) as (r & _ & A).
    destruct (sweep_cell c (view_of s) b) as [Hc _]. unfold cell_ok in Hc. rewrite A, F in Hc.
    destruct (rstep one r (view_of s) b) as [[? ?]|]; discriminate.
  Qed.

  Theorem accepts_eq_ref w : ctl_accepts K w = ref_accepts one w.
  Proof.
    unfold ctl_accepts, ref_accepts.
    assert (A0 : alpha ctl_init (view_of []) = Some RTop) by reflexivity.
    pose proof (sim_run w ctl_init [] RTop A0) as H.
    destruct (ctl_run K ctl_init [] w) as [[c s]|]; destruct (rrun one RTop [] w) as [[r s']|]; try contradiction; auto.
    destruct H as [-> A].
    destruct (sweep_cell c (view_of s') x00) as [_ He]. unfold end_ok in He. rewrite A in He.
    apply Bool.eqb_prop in He. rewrite <- He. destruct (ctl_end K c (view_of s')); reflexivity.
  Qed.
End Alpha.
