From Coq Require Import Init.Byte NArith ZArith List Bool Lia.
Require Import Ojg.Base.Bytes Ojg.Json.NumberFacts.
Import ListNotations.
Open Scope Z_scope.

Lemma z2b_b2z b : z2b (b2z b) = b.
Proof. unfold z2b, b2z, n2b. rewrite N2Z.id. destruct b; reflexivity. Qed.

Lemma digit_byte_val b : digit_byte (digit_val b) = b.
Proof. unfold digit_byte, digit_val. replace (48 + (b2z b - 48)) with (b2z b) by lia. apply z2b_b2z. Qed.

Require Import Ojg.Json.IntLit Ojg.Json.Ref.

Definition lead (ds : bytes) : Prop := exists d r, ds = d :: r /\ is_19 d = true.

Lemma digits_val_cons d r : digits_val (d :: r) = val_from (digit_val d) r.
Proof. reflexivity. Qed.

Lemma lead_ge1 ds : lead ds -> all_digits ds -> 1 <= digits_val ds.
Proof.
  intros (d & r & -> & H19) H. inversion H; subst. rewrite digits_val_cons.
  pose proof (is_digit_ok d H2) as Hd. unfold digit_ok in Hd.
  assert (1 <= digit_val d).
  { unfold is_19 in H19. apply andb_true_iff in H19 as [A _]. apply Z.leb_le in A. unfold digit_val. lia. }
  pose proof (val_from_ge r (digit_val d) H3 ltac:(lia)). lia.
Qed.

Lemma lead_snoc l x : l <> [] -> lead (l ++ [x]) -> lead l.
Proof. destruct l as [|d r]; [intro H; contradiction H; reflexivity|]. intros _ (d' & r' & E & H). simpl in E. inversion E; subst. exists d', r. auto. Qed.

Lemma all_digits_snoc l x : all_digits (l ++ [x]) -> all_digits l /\ is_digit x = true.
Proof. intro H. apply Forall_app in H as [A B]. inversion B; subst. auto. Qed.

Lemma pdf_digits ds : forall fuel acc, lead ds -> all_digits ds -> (length ds <= fuel)%nat ->
  pos_digits_fuel fuel (digits_val ds) acc = ds ++ acc.
Proof.
  induction ds as [|x l IH] using rev_ind; intros fuel acc HL HA Hf.
  - destruct HL as (d & r & E & _). discriminate E.
  - destruct (all_digits_snoc _ _ HA) as [HAl Hx].
    pose proof (is_digit_ok x Hx) as Hdx. unfold digit_ok in Hdx.
    rewrite digits_val_snoc.
    destruct fuel as [|f]; [rewrite app_length in Hf; simpl in Hf; lia|].
    destruct l as [|d r].
    + simpl. unfold digits_val. simpl.
      destruct (digit_val x <? 10) eqn:E; [|apply Z.ltb_ge in E; lia].
      rewrite digit_byte_val. reflexivity.
    + assert (HLl : lead (d :: r)) by (apply (lead_snoc (d :: r) x); [discriminate | exact HL]).
      pose proof (lead_ge1 _ HLl HAl) as H1.
      simpl pos_digits_fuel.
      destruct (digits_val (d :: r) * 10 + digit_val x <? 10) eqn:E; [apply Z.ltb_lt in E; lia|].
      assert (Ediv : (digits_val (d :: r) * 10 + digit_val x) / 10 = digits_val (d :: r)).
      { rewrite Z.div_add_l by lia. rewrite Z.div_small by lia. lia. }
      assert (Emod : (digits_val (d :: r) * 10 + digit_val x) mod 10 = digit_val x).
      { rewrite Z.add_comm, Z.mod_add by lia. apply Z.mod_small. lia. }
      rewrite Ediv, Emod.
      rewrite digit_byte_val.
      rewrite IH; [rewrite <- app_assoc; reflexivity | exact HLl | exact HAl |].
      rewrite app_length in Hf. simpl in Hf |- *. lia.
Qed.

Lemma pow2_le_digits ds : lead ds -> all_digits ds -> 2 ^ (Z.of_nat (length ds) - 1) <= digits_val ds.
Proof.
  induction ds as [|x l IH] using rev_ind; intros HL HA.
  - destruct HL as (d & r & E & _). discriminate E.
  - destruct (all_digits_snoc _ _ HA) as [HAl Hx].
    pose proof (is_digit_ok x Hx) as Hdx. unfold digit_ok in Hdx.
    destruct l as [|d r].
    + simpl. pose proof (lead_ge1 _ HL HA). simpl in *. lia.
    + assert (HLl : lead (d :: r)) by (apply (lead_snoc (d :: r) x); [discriminate | exact HL]).
      specialize (IH HLl HAl). rewrite digits_val_snoc. rewrite app_length. simpl length in *.
      replace (Z.of_nat (S (length r) + 1) - 1) with (Z.succ (Z.of_nat (S (length r)) - 1)) by lia.
      rewrite Z.pow_succ_r by lia. lia.
Qed.

Lemma format_uint_digits ds : lead ds -> all_digits ds -> format_uint (digits_val ds) = ds.
Proof.
  intros HL HA. unfold format_uint. rewrite pdf_digits; [apply app_nil_r | exact HL | exact HA |].
  pose proof (pow2_le_digits ds HL HA) as Hp. pose proof (lead_ge1 ds HL HA) as H1.
  apply Z.log2_le_pow2 in Hp; [|lia]. lia.
Qed.

Lemma format_uint_zero : format_uint 0 = [x30].
Proof. reflexivity. Qed.
