From Coq Require Import Init.Byte NArith ZArith List Bool.
Require Import Ojg.Base.Bytes Ojg.Gen.OjMaps Ojg.Json.Machine Ojg.Json.Frontends Ojg.Json.Position.
Lemma nl_parser : nl_table_ok fe_parser = true. Proof. vm_compute. reflexivity. Qed.
Lemma nl_validator : nl_table_ok fe_validator = true. Proof. vm_compute. reflexivity. Qed.
Lemma nl_tokenizer : nl_table_ok fe_tokenizer = true. Proof. vm_compute. reflexivity. Qed.
Lemma nl_gen : nl_table_ok fe_gen = true. Proof. vm_compute. reflexivity. Qed.
