(* Liveness of the reference recogniser: every reachable configuration can be completed to an
   accepted text, and a configuration that got stuck stays stuck. Together these say that the
   byte at which the recogniser stops is the first byte after which the input can no longer
   be extended to a valid JSON text (C09's definition of the error position). *)
From Coq Require Import Init.Byte NArith ZArith List Bool Lia.
Require Import Ojg.Base.Bytes Ojg.Json.Machine Ojg.Json.Ref.
Import ListNotations.
Open Scope Z_scope.

Section Live.
  Variable one : bool.

  Lemma rrun_app a : forall b m s,
    rrun one m s (a ++ b) = match rrun one m s a with Some (m', s') => rrun one m' s' b | None => None end.
  Proof.
    induction a as [|x a IH]; intros b m s; simpl; [reflexivity|].
    destruct (rstep one m (view_of s) x) as [[m' op]|]; auto.
  Qed.

  Lemma dead_forever x e : rrun one RTop [] x = None -> ref_accepts one (x ++ e) = false.
  Proof. intro H. unfold ref_accepts. rewrite rrun_app, H. reflexivity. Qed.

  (* reachability invariant *)
  Definition rinv (m : rmode) (s : list bool) : Prop :=
    (m = RDone -> s = []) /\ (m = RAfter -> s <> []).

  Lemma after_value_inv op s :
    (op = SNone \/ (op = SPop /\ s <> [])) ->
    rinv (after_value one op (view_of s)) (apply_sop op s).
  Proof.
    intros [->|[-> Hs]]; unfold after_value, rinv; simpl.
    - destruct s as [|x [|y s]]; simpl; destruct one; split; intro H; try discriminate; try reflexivity; congruence.
    - destruct s as [|x [|y s]]; simpl; [congruence| |]; destruct one; split; intro H; try discriminate; try reflexivity; congruence.
  Qed.

  Ltac brk :=
    repeat match goal with
    | H : Some _ = Some _ |- _ => inversion H; subst; clear H
    | H : None = Some _ |- _ => discriminate H
    | H : (if ?c then _ else _) = Some _ |- _ => destruct c eqn:?
    | H : match ?x with _ => _ end = Some _ |- _ => destruct x eqn:?
    end.

  Lemma trivial_inv m s : m <> RDone -> m <> RAfter -> rinv m s.
  Proof. intros H1 H2; split; intro; contradiction. Qed.

  Lemma vtop_some_nonempty s o : vtop (view_of s) = Some o -> s <> [].
  Proof. destruct s; simpl; [discriminate|congruence]. Qed.

  Lemma delim_inv s b m' op :
    s <> [] \/ True -> delim one (view_of s) b = Some (m', op) -> rinv m' (apply_sop op s).
  Proof.
    intros _ H. unfold delim in H. brk;
      try (apply after_value_inv; left; reflexivity);
      try (apply after_value_inv; right; split; [reflexivity|eapply vtop_some_nonempty; eassumption]);
      try (apply trivial_inv; discriminate).
  Qed.

  Lemma value_start_inv s b m' op : value_start b = Some (m', op) -> rinv m' (apply_sop op s).
  Proof. intro H. unfold value_start in H. brk; apply trivial_inv; discriminate. Qed.

  Lemma rstep_inv m s b m' op :
    rinv m s -> rstep one m (view_of s) b = Some (m', op) -> rinv m' (apply_sop op s).
  Proof.
    intros I H. destruct m; simpl in H.
    - (* RTop *) brk; [simpl; exact I | eapply value_start_inv; eassumption].
    - (* RDone *) brk. simpl; exact I.
    - (* RVal *) brk; [simpl; exact I | eapply value_start_inv; eassumption].
    - (* RArr0 *) brk; [simpl; exact I | | eapply value_start_inv; eassumption].
      destruct s as [|x s]; [| apply after_value_inv; right; split; [reflexivity|discriminate]].
      (* ']' at an empty stack from RArr0: the invariant of RArr0 does not exclude it, but the
         result is RDone/RTop at the empty stack, which satisfies the invariant *)
      unfold after_value; simpl. destruct one; split; intro; try discriminate; reflexivity.
    - (* RObj0 *) brk; [simpl; exact I | apply trivial_inv; discriminate | ].
      destruct s as [|x s]; [| apply after_value_inv; right; split; [reflexivity|discriminate]].
      unfold after_value; simpl. destruct one; split; intro; try discriminate; reflexivity.
    - brk; [simpl; exact I | apply trivial_inv; discriminate].
    - brk; [simpl; exact I | apply trivial_inv; discriminate].
    - (* RAfter *) eapply delim_inv; eauto.
    - (* RStr *) brk; try (apply trivial_inv; discriminate); try (simpl; apply trivial_inv; discriminate).
      destruct key; [apply trivial_inv; discriminate | apply after_value_inv; left; reflexivity].
    - brk; apply trivial_inv; discriminate.
    - brk; repeat (match goal with |- context[if ?c then _ else _] => destruct c end); apply trivial_inv; discriminate.
    - (* RLit *) brk.
      match goal with |- context[if ?c then _ else _] => destruct c end;
        [apply after_value_inv; left; reflexivity | apply trivial_inv; discriminate].
    - (* RNum *) destruct p; brk; try (apply trivial_inv; discriminate); try (eapply delim_inv; eauto).
  Qed.

  Lemma rrun_inv w : forall m s m' s', rinv m s -> rrun one m s w = Some (m', s') -> rinv m' s'.
  Proof.
    induction w as [|b w IH]; intros m s m' s' I H; simpl in H.
    - inversion H; subst; exact I.
    - destruct (rstep one m (view_of s) b) as [[m1 op]|] eqn:RS; [|discriminate].
      eapply IH; [|exact H]. eapply rstep_inv; eauto.
  Qed.
End Live.

(* ---- completions *)
Section Complete.
  Variable one : bool.

  Definition closer (o : bool) : byte := if o then x7d else x5d.
  Definition closers (s : list bool) : bytes := map closer s.

  Definition finish_str (k : bool) : bytes := if k then [x22; x3a; x30] else [x22].

  Definition finish_mode (m : rmode) : bytes :=
    match m with
    | RTop | RVal | RArr0 => [x30]
    | RDone | RAfter => []
    | RObj0 | RKeyReq => [x22; x22; x3a; x30]
    | RColon => [x3a; x30]
    | RStr k => finish_str k
    | REsc k => x6e :: finish_str k
    | RHex k n => repeat x30 (Z.to_nat (4 - n)) ++ finish_str k
    | RLit l n => skipn (Z.to_nat n) (lit_word l)
    | RNum NNeg | RNum NDot | RNum NESign | RNum NEZero => [x30]
    | RNum _ => []
    end.

  Definition closable (m : rmode) (s : list bool) : Prop :=
    match s with
    | [] => rend m VEmpty = true
    | _ => m = RAfter \/ exists p, m = RNum p /\ num_final p = true
    end.

  (* ranges of the counters in reachable states *)
  Definition rrange (m : rmode) : Prop :=
    match m with
    | RHex _ n => 0 <= n <= 3
    | RLit l n => 1 <= n < Z.of_nat (length (lit_word l))
    | _ => True
    end.

  Ltac brk :=
    repeat match goal with
    | H : Some _ = Some _ |- _ => inversion H; subst; clear H
    | H : None = Some _ |- _ => discriminate H
    | H : (if ?c then _ else _) = Some _ |- _ => destruct c eqn:?
    | H : match ?x with _ => _ end = Some _ |- _ => destruct x eqn:?
    end.

  Lemma value_start_range b m' op : value_start b = Some (m', op) -> rrange m'.
  Proof. intro H. unfold value_start in H. brk; simpl; auto; lia. Qed.
  Lemma delim_range v b m' op : delim one v b = Some (m', op) -> rrange m'.
  Proof.
    intro H. unfold delim, after_value in H. brk;
      repeat (match goal with |- context[if ?c then _ else _] => destruct c end); simpl; auto.
  Qed.

  Ltac ifs := repeat (match goal with |- context[if ?c then _ else _] => destruct c eqn:? end).

  Lemma rstep_range m v b m' op : rrange m -> rstep one m v b = Some (m', op) -> rrange m'.
  Proof.
    intros R H.
    destruct m as [| | | | | | | |k|k|k n|l n|p]; simpl in H.
    - brk; simpl; auto. eapply value_start_range; eassumption.
    - brk; simpl; auto.
    - brk; simpl; auto. eapply value_start_range; eassumption.
    - brk; simpl; auto; [unfold after_value; ifs; simpl; auto | eapply value_start_range; eassumption].
    - brk; simpl; auto. unfold after_value; ifs; simpl; auto.
    - brk; simpl; auto.
    - brk; simpl; auto.
    - eapply delim_range; eassumption.
    - brk; simpl; auto. unfold after_value; ifs; simpl; auto.
    - brk; simpl; auto. lia.
    - brk. simpl in R. destruct (n =? 3) eqn:E; simpl; auto. apply Z.eqb_neq in E. lia.
    - brk. simpl in R.
      match goal with |- context[if ?c then _ else _] => destruct c eqn:E end.
      + unfold after_value. ifs; simpl; auto.
      + simpl. apply Z.eqb_neq in E.
        assert (n < Z.of_nat (length (lit_word l))).
        { unfold word_at in *. destruct (n <? 0); [discriminate|].
          assert (Hs : nth_error (lit_word l) (Z.to_nat n) <> None) by congruence.
          apply nth_error_Some in Hs. lia. }
        lia.
    - destruct p; brk; simpl; auto; try (eapply delim_range; eassumption).
  Qed.

  Lemma rrun_range w : forall m s m' s', rrange m -> rrun one m s w = Some (m', s') -> rrange m'.
  Proof.
    induction w as [|b w IH]; intros m s m' s' R H; simpl in H.
    - inversion H; subst; exact R.
    - destruct (rstep one m (view_of s) b) as [[m1 op]|] eqn:RS; [|discriminate].
      eapply IH; [|exact H]. eapply rstep_range; eauto.
  Qed.

  Lemma num_zero_closable s : closable (RNum NZero) s.
  Proof. destruct s; simpl; auto. right. exists NZero. auto. Qed.

  Lemma after_closable s : closable (after_value one SNone (view_of s)) s.
  Proof. destruct s as [|x [|y s]]; unfold after_value; simpl; destruct one; auto. Qed.

  Lemma finish_str_ok k s :
    exists m', rrun one (RStr k) s (finish_str k) = Some (m', s) /\ closable m' s.
  Proof.
    destruct k; simpl.
    - eexists; split; [reflexivity|apply num_zero_closable].
    - eexists; split; [reflexivity|apply after_closable].
  Qed.

  Lemma finish_ok m s :
    rinv m s -> rrange m ->
    exists m', rrun one m s (finish_mode m) = Some (m', s) /\ closable m' s.
  Proof.
    intros [I1 I2] R. destruct m; simpl finish_mode.
    - eexists; split; [reflexivity|apply num_zero_closable].
    - rewrite (I1 eq_refl). eexists; split; [reflexivity|]. reflexivity.
    - eexists; split; [reflexivity|apply num_zero_closable].
    - eexists; split; [reflexivity|apply num_zero_closable].
    - eexists; split; [reflexivity|apply num_zero_closable].
    - eexists; split; [reflexivity|apply num_zero_closable].
    - eexists; split; [reflexivity|apply num_zero_closable].
    - eexists; split; [reflexivity|]. specialize (I2 eq_refl). destruct s; [contradiction|]. simpl. auto.
    - apply finish_str_ok.
    - (* REsc *) destruct (finish_str_ok key s) as (m' & H1 & H2). exists m'. split; [|exact H2].
      simpl. exact H1.
    - (* RHex *) simpl in R.
      destruct (finish_str_ok key s) as (m' & H1 & H2). exists m'. split; [|exact H2].
      assert (Hn : n = 0 \/ n = 1 \/ n = 2 \/ n = 3) by lia.
      destruct Hn as [ -> | [ -> | [ -> | -> ] ] ]; simpl; exact H1.
    - (* RLit *) simpl in R.
      destruct l; simpl in R;
        [assert (Hn : n = 1 \/ n = 2 \/ n = 3) by lia; destruct Hn as [ -> | [ -> | -> ] ]
        |assert (Hn : n = 1 \/ n = 2 \/ n = 3 \/ n = 4) by lia; destruct Hn as [ -> | [ -> | [ -> | -> ] ] ]
        |assert (Hn : n = 1 \/ n = 2 \/ n = 3) by lia; destruct Hn as [ -> | [ -> | -> ] ]];
        simpl; (eexists; split; [reflexivity|apply after_closable]).
    - (* RNum *) destruct p; simpl;
        try (eexists; split; [reflexivity|apply num_zero_closable]);
        (eexists; split; [reflexivity|]; destruct s; simpl; auto; right; eexists; split; [reflexivity|reflexivity]).
  Qed.

  Lemma close_step m o s :
    (m = RAfter \/ exists p, m = RNum p /\ num_final p = true) ->
    rstep one m (view_of (o :: s)) (closer o) = Some (after_value one SPop (view_of (o :: s)), SPop).
  Proof.
    intros [->|(p & -> & Hp)].
    - destruct o; destruct s; reflexivity.
    - destruct p; try discriminate Hp; destruct o; destruct s; reflexivity.
  Qed.

  Lemma close_ok s : forall m,
    closable m s -> exists m', rrun one m s (closers s) = Some (m', []) /\ rend m' VEmpty = true.
  Proof.
    induction s as [|o s IH]; intros m C.
    - exists m. split; [reflexivity|exact C].
    - simpl in C. simpl closers. cbn [rrun]. rewrite (close_step m o s C). cbn [apply_sop tl].
      apply IH.
      destruct s as [|y s]; unfold after_value; simpl.
      + destruct one; reflexivity.
      + destruct s; simpl; auto.
  Qed.

  (* every reachable configuration has an accepting completion *)
  Theorem ref_live x m s :
    rrun one RTop [] x = Some (m, s) -> exists e, ref_accepts one (x ++ e) = true.
  Proof.
    intro H.
    assert (I : rinv m s).
    { eapply rrun_inv; [|exact H]. split; intro; [reflexivity|discriminate]. }
    assert (R : rrange m).
    { eapply rrun_range; [|exact H]. exact Logic.I. }
    destruct (finish_ok m s I R) as (m1 & F1 & C1).
    destruct (close_ok s m1 C1) as (m2 & F2 & E2).
    exists (finish_mode m ++ closers s).
    unfold ref_accepts. rewrite (rrun_app one), H, (rrun_app one), F1, F2. exact E2.
  Qed.
End Complete.
